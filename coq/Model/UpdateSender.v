(* C10 / C18: executable model of protocols/bgp/server/update_sender.go (UpdateSender), of the size
   arithmetic it relies on (route/bgp_path.go: BGPPath.Length; protocols/bgp/packet: the byte counts
   the attribute / NLRI / UPDATE serializers produce and the 4096 byte check of SerializeUpdate).

   No proofs in this file.  Sizes are Z (budgets go negative), identities are N.

   What is modelled
   ----------------
   * session kinds: plain IPv4, IPv4 over multiprotocol, IPv6 over multiprotocol; add-path TX on/off;
     2/4 octet ASNs; iBGP/eBGP; route reflector client.
   * a path is the identity of its attribute content (p_tag: the tuple ComputeHashWithPathID hashes,
     sha256 modelled as the identity), its path identifier and the *shape* that determines all
     sizes (ASNs per AS_PATH segment, which optional attributes are present, how many communities...).
   * the queue toSend (hash -> path, prefixes) as an association list; Go's map iteration order is an
     input of every step that iterates.
   * the atomic steps of the code:
       Add x p      UpdateSender.AddPath      (under toSendMu)
       Remove x p   UpdateSender.RemovePath   (under toSendMu: cancel queued announcements of the
                                               same prefix/path id, write the withdraw)
       Dequeue k    sender(): the part of one loop iteration that runs under toSendMu
                    (_getUpdateInformation + delete of the entry)
       EmitOne      sender(): sendUpdates after toSendMu was dropped, one Write per UPDATE
       EoRBegin o   EndOfRIB(): takes toSendMu, _flush visits the entries in map order o
       EoRStep      EndOfRIB(): one Write of _flush / finally the End-of-RIB marker and unlock
     While EndOfRIB holds toSendMu, Add/Remove/Dequeue are not enabled (they block); EmitOne of the
     sender goroutine is (it holds no lock).  A step that is not enabled returns None.
   * an UPDATE that SerializeUpdate refuses (longer than 4096 bytes) is not written: the prefixes it
     carried are silently lost (serializeAndSendUpdate logs and returns nil). *)
From Coq Require Import List NArith ZArith Bool.
Import ListNotations.
Open Scope Z_scope.

(* ------------------------------------------------------------------ session, prefixes, paths *)

Inductive fam := V4 | V4MP | V6MP.

Record cfg := mkcfg {
  c_fam : fam;          (* afi / multiProtocol of the fsmAddressFamily *)
  c_addpath : bool;     (* options.UseAddPath = !addPathTX.BestOnly *)
  c_asn4 : bool;        (* options.Use32BitASN *)
  c_ibgp : bool;        (* u.iBGP *)
  c_rr : bool           (* u.rrClient *)
}.

Record pfx := mkpfx { x_addr : N; x_len : N }.

Definition pfx_eqb (a b : pfx) : bool :=
  N.eqb (x_addr a) (x_addr b) && N.eqb (x_len a) (x_len b).

Record path := mkpath {
  p_tag : N;            (* identity of the hashed attribute tuple *)
  p_pid : N;            (* BGPPath.PathIdentifier *)
  p_segs : list N;      (* number of ASNs of each AS_PATH segment *)
  p_med : bool;         (* MED != 0 *)
  p_atomic : bool;      (* AtomicAggregate *)
  p_aggr : bool;        (* Aggregator != nil *)
  p_orig : bool;        (* OriginatorID != 0 *)
  p_otc : bool;         (* OnlyToCustomer != 0 *)
  p_clist : N;          (* len(ClusterList) *)
  p_comms : N;          (* len(Communities) *)
  p_lcomms : N;         (* len(LargeCommunities) *)
  p_unk : list N        (* len(Value) of each unknown attribute *)
}.

(* the path identifier that goes on the wire (NLRI.serialize writes it only with add-path) *)
Definition wpid (c : cfg) (p : path) : N := if c_addpath c then p_pid p else 0%N.

(* ------------------------------------------------------------------ sizes *)

Definition sumZ (l : list Z) : Z := fold_right Z.add 0 l.

Definition zN (n : N) : Z := Z.of_N n.

(* net.BytesInAddr: ceil(len/8) *)
Definition bytes_in (len : N) : Z := (zN len + 7) / 8.

(* _getUpdateInformation: BytesInPrefix()+1, plus PathIdentifierLen with add-path; equals what NLRI.serialize writes *)
Definition nlri_len (c : cfg) (x : pfx) : Z :=
  bytes_in (x_len x) + 1 + (if c_addpath c then 4 else 0).

Definition nlri_sum (c : cfg) (l : list pfx) : Z := sumZ (map (nlri_len c) l).

Definition opt (b : bool) (z : Z) : Z := if b then z else 0.
Definition nz (n : N) : bool := negb (N.eqb n 0).

(* BGPPath.Length(): uint16 arithmetic *)
Definition unk_wire (u : N) : Z := zN u + 3 + (if 255 <? zN u then 1 else 0).

Definition length_est (p : path) : Z :=
  (4 * 7 + 4
   + (3 + sumZ (map (fun n => 1 + 4 * zN n) (p_segs p)))
   + opt (nz (p_comms p)) (3 + 4 * zN (p_comms p))
   + opt (nz (p_lcomms p)) (3 + 12 * zN (p_lcomms p))
   + opt (nz (p_clist p)) (3 + 4 * zN (p_clist p))
   + opt (p_orig p) 4
   + opt (p_otc p) 4
   + sumZ (map unk_wire (p_unk p))) mod 65536.

(* bytes the attribute serializers write (PathAttributes + PathAttribute.Serialize) *)
Definition ext (l : Z) : Z := if 255 <? l then 1 else 0.

Definition asn_len (c : cfg) : Z := if c_asn4 c then 4 else 2.

Definition aspath_body (c : cfg) (p : path) : Z :=
  sumZ (map (fun n => 2 + zN n * asn_len c) (p_segs p)).

Definition enc_aspath (c : cfg) (p : path) : Z :=
  3 + ext (aspath_body c p) + aspath_body c p.

(* serializeNextHop writes flags, type, length and addr.Bytes(): 4 or 16 address bytes *)
Definition nh_len (c : cfg) : Z := match c_fam c with V6MP => 16 | _ => 4 end.
Definition enc_nexthop (c : cfg) : Z := 3 + nh_len c.

Definition enc_list (n : N) (each : Z) : Z :=
  if nz n then 3 + ext (each * zN n) + each * zN n else 0.

Definition enc_attrs (c : cfg) (p : path) : Z :=
  enc_aspath c p
  + 4                                  (* ORIGIN *)
  + enc_nexthop c                      (* NEXT_HOP *)
  + opt (p_med p) 7
  + opt (p_atomic p) 3
  + opt (p_aggr p) 9
  + opt (c_ibgp c) 7                   (* LOCAL_PREF *)
  + opt (c_rr c) (7 + (if nz (p_clist p) then 3 + 4 * zN (p_clist p) else 0))
  + enc_list (p_comms p) 4
  + enc_list (p_lcomms p) 12
  + sumZ (map (fun u => 3 + zN u) (p_unk p)).

(* pathAttributesLen: the larger of the estimate and the encoded length *)
Definition reserved (c : cfg) (p : path) : Z := Z.max (length_est p) (enc_attrs c p).

Definition overhead (c : cfg) : Z :=
  match c_fam c with
  | V4 => 0
  | V4MP => 2 + 1 + 1 + 4 + 1 - 4 + 1
  | V6MP => 2 + 1 + 1 + 16 + 1 - 4 + 1
  end.

(* getBudget: MaxLen - HeaderLen - MinUpdateLen - pathAttributesLen - updateOverhead *)
Definition budget (c : cfg) (p : path) : Z := 4096 - 19 - 4 - reserved c p - overhead c.

(* total length of the UPDATE announcing l with the attributes of p *)
Definition mp_value (c : cfg) (l : list pfx) : Z := 2 + 1 + 1 + nh_len c + 1 + nlri_sum c l.

Definition mp_attr (c : cfg) (l : list pfx) : Z :=
  2 + (if 255 <? mp_value c l then 2 else 1) + mp_value c l.

Definition msg_total (c : cfg) (p : path) (l : list pfx) : Z :=
  match c_fam c with
  | V4 => 19 + 2 + 2 + enc_attrs c p + nlri_sum c l
  | _ => 19 + 2 + 2 + mp_attr c l + (enc_attrs c p - enc_nexthop c)
  end.

(* SerializeUpdate accepts iff the message is at most 4096 bytes long *)
Definition msg_ok (c : cfg) (p : path) (l : list pfx) : bool := msg_total c p l <=? 4096.

Definition wd_total (c : cfg) (x : pfx) : Z :=
  match c_fam c with
  | V4 => 19 + 2 + nlri_len c x + 2
  | _ => 19 + 2 + 2 + (3 + (2 + 1 + nlri_len c x))
  end.

(* ------------------------------------------------------------------ packing *)

(* the loop of _getUpdateInformation; rcur = prefixes of the current message, newest first *)
Fixpoint pack_go (c : cfg) (full b : Z) (rcur : list pfx) (xs : list pfx) : list (list pfx) :=
  match xs with
  | [] => match rcur with [] => [] | _ => [rev rcur] end
  | x :: r =>
    let n := nlri_len c x in
    if b - n <? 0
    then rev rcur :: pack_go c full (full - n) [x] r
    else pack_go c full (b - n) (x :: rcur) r
  end.

Definition pack (c : cfg) (p : path) (xs : list pfx) : list (list pfx) :=
  pack_go c (budget c p) (budget c p) [] xs.

(* ------------------------------------------------------------------ wire *)

Inductive msg :=
| MAnn (tag pid : N) (len : Z) (xs : list pfx)   (* announcement: attributes, path id, total length, NLRI in wire order *)
| MWd (x : pfx) (pid : N)
| MEoR.

(* bgpUpdate prepends to the NLRI list (wire order reversed), nlriForPrefixes appends *)
Definition wire_order (c : cfg) (l : list pfx) : list pfx :=
  match c_fam c with V4 => rev l | _ => l end.

(* sendUpdates for one message; the wire log is newest first *)
Definition emit (c : cfg) (p : path) (l : list pfx) (w : list msg) : list msg :=
  if msg_ok c p l then MAnn (p_tag p) (wpid c p) (msg_total c p l) (wire_order c l) :: w else w.

Fixpoint emit_all (c : cfg) (p : path) (ms : list (list pfx)) (w : list msg) : list msg :=
  match ms with
  | [] => w
  | l :: r => emit_all c p r (emit c p l w)
  end.

(* what the peer holds after the messages w (newest first), per prefix and path identifier *)
Fixpoint view (w : list msg) (x : pfx) (pid : N) : option N :=
  match w with
  | [] => None
  | MAnn tag pid' _ xs :: r =>
    if N.eqb pid' pid && existsb (pfx_eqb x) xs then Some tag else view r x pid
  | MWd y pid' :: r =>
    if N.eqb pid' pid && pfx_eqb y x then None else view r x pid
  | MEoR :: r => view r x pid
  end.

(* ------------------------------------------------------------------ the sender *)

Record entry := mkentry { e_path : path; e_pfxs : list pfx }.

Definition key := (N * N)%type.
Definition pkey (p : path) : key := (p_tag p, p_pid p).
Definition key_eqb (a b : key) : bool := N.eqb (fst a) (fst b) && N.eqb (snd a) (snd b).

Record batch := mkbatch { b_path : path; b_msgs : list (list pfx) }.

Record st := mkst {
  queue : list entry;             (* toSend *)
  inflight : option batch;        (* dequeued by the sender goroutine, not yet written *)
  eor : option (list batch);      (* Some: EndOfRIB holds toSendMu, these remain to be written *)
  wire : list msg                 (* bytes written to the peer, newest first *)
}.

Definition init : st := mkst [] None None [].

(* AddPath *)
Fixpoint q_add (x : pfx) (p : path) (q : list entry) : list entry :=
  match q with
  | [] => [mkentry p [x]]
  | e :: r =>
    if key_eqb (pkey (e_path e)) (pkey p)
    then mkentry (e_path e) (e_pfxs e ++ [x]) :: r
    else e :: q_add x p r
  end.

(* _cancelAnnouncement *)
Fixpoint q_cancel (c : cfg) (x : pfx) (wp : N) (q : list entry) : list entry :=
  match q with
  | [] => []
  | e :: r =>
    if N.eqb (wpid c (e_path e)) wp then
      match filter (fun y => negb (pfx_eqb y x)) (e_pfxs e) with
      | [] => q_cancel c x wp r
      | l => mkentry (e_path e) l :: q_cancel c x wp r
      end
    else e :: q_cancel c x wp r
  end.

Fixpoint q_take (k : key) (q : list entry) : option (entry * list entry) :=
  match q with
  | [] => None
  | e :: r =>
    if key_eqb (pkey (e_path e)) k then Some (e, r)
    else match q_take k r with
         | Some (e', r') => Some (e', e :: r')
         | None => None
         end
  end.

Definition batch_of (c : cfg) (e : entry) : batch :=
  mkbatch (e_path e) (pack c (e_path e) (e_pfxs e)).

(* the entries in the order a map iteration visits them: the listed keys first, the rest as stored *)
Fixpoint in_order (o : list key) (q : list entry) : list entry :=
  match o with
  | [] => q
  | k :: o' =>
    match q_take k q with
    | Some (e, q') => e :: in_order o' q'
    | None => in_order o' q
    end
  end.

Definition norm (b : batch) : option batch :=
  match b_msgs b with [] => None | _ => Some b end.

Inductive label :=
| Add (x : pfx) (p : path)
| Remove (x : pfx) (p : path)
| Dequeue (k : key)
| EmitOne
| EoRBegin (order : list key)
| EoRStep.

Definition unlocked (s : st) : bool := match eor s with None => true | Some _ => false end.

Definition step (c : cfg) (s : st) (l : label) : option st :=
  match l with
  | Add x p =>
    if unlocked s then Some (mkst (q_add x p (queue s)) (inflight s) (eor s) (wire s)) else None
  | Remove x p =>
    if unlocked s
    then Some (mkst (q_cancel c x (wpid c p) (queue s)) (inflight s) (eor s)
                    (MWd x (wpid c p) :: wire s))
    else None
  | Dequeue k =>
    if unlocked s then
      match inflight s with
      | Some _ => None
      | None =>
        match q_take k (queue s) with
        | None => None
        | Some (e, q') => Some (mkst q' (norm (batch_of c e)) (eor s) (wire s))
        end
      end
    else None
  | EmitOne =>
    match inflight s with
    | None => None
    | Some b =>
      match b_msgs b with
      | [] => Some (mkst (queue s) None (eor s) (wire s))
      | m :: ms =>
        Some (mkst (queue s) (norm (mkbatch (b_path b) ms)) (eor s) (emit c (b_path b) m (wire s)))
      end
    end
  | EoRBegin o =>
    if unlocked s
    then Some (mkst [] (inflight s) (Some (map (batch_of c) (in_order o (queue s)))) (wire s))
    else None
  | EoRStep =>
    match eor s with
    | None => None
    | Some [] => Some (mkst (queue s) (inflight s) None (MEoR :: wire s))
    | Some (b :: bs) =>
      match b_msgs b with
      | [] => Some (mkst (queue s) (inflight s) (Some bs) (wire s))
      | m :: ms =>
        Some (mkst (queue s) (inflight s)
                   (Some (match ms with [] => bs | _ => mkbatch (b_path b) ms :: bs end))
                   (emit c (b_path b) m (wire s)))
      end
    end
  end.

Fixpoint run_from (c : cfg) (s : st) (ls : list label) : option st :=
  match ls with
  | [] => Some s
  | l :: r => match step c s l with Some s' => run_from c s' r | None => None end
  end.

Definition run (c : cfg) (ls : list label) : option st := run_from c init ls.

Definition quiescent (s : st) : bool :=
  match queue s, inflight s, eor s with
  | [], None, None => true
  | _, _, _ => false
  end.
