(* C27/C28: executable model of the BMP wire layer of bio-rd, byte-exact:
     protocols/bgp/server/bmp_receiver.go : recvBMPMsg  (framing, receive buffer growth)
     protocols/bmp/packet/*.go            : Decode and the per-message decoders
   Bytes are N (0..255), a bytes.Buffer is the list of bytes still unread.
   Every result carries a cost = bytes requested from the allocator by the BMP layer for
   buffers whose size depends on the input (`make`, `append`, the scratch slice binary.Read
   allocates when it fills a []byte); fixed-size fields and structs are not counted.
   Where Go would panic (slice bounds) the model returns Panic; loops run on fuel and return
   Fuel when it runs out (Proofs/BMPCodecProofs.v shows neither happens). No proofs here. *)
From Coq Require Import List NArith Bool.
Import ListNotations.
Open Scope N_scope.

Definition bytes := list N.
Definition len {A : Type} (l : list A) : N := N.of_nat (length l).
Definition takeN {A : Type} (n : N) (l : list A) : list A := firstn (N.to_nat n) l.
Definition dropN {A : Type} (n : N) (l : list A) : list A := skipn (N.to_nat n) l.

(* big endian *)
Definition be (bs : bytes) : N := fold_left (fun acc b => acc * 256 + b) bs 0.

Definition two32 : N := 4294967296.
(* uint32 subtraction with wrap-around, for a, b < 2^32 *)
Definition sub32 (a b : N) : N := (a + two32 - b) mod two32.
Definition add32 (a b : N) : N := (a + b) mod two32.
Definition two64 : N := 18446744073709551616.
(* uint64 multiplication *)
Definition mul64 (a b : N) : N := (a * b) mod two64.

Inductive res (A : Type) : Type :=
| Ok (a : A)
| Err            (* the Go function returns an error *)
| Panic          (* the Go function would panic *)
| Fuel.          (* model artefact: loop fuel exhausted *)
Arguments Ok {A} a.
Arguments Err {A}.
Arguments Panic {A}.
Arguments Fuel {A}.

(* result and allocation cost *)
Definition M (A : Type) : Type := (res A * N)%type.
Definition ret {A : Type} (a : A) : M A := (Ok a, 0).
Definition fail {A : Type} : M A := (Err, 0).
Definition bind {A B : Type} (m : M A) (f : A -> M B) : M B :=
  match m with
  | (Ok a, c) => let (r, c') := f a in (r, c + c')
  | (Err, c) => (Err, c)
  | (Panic, c) => (Panic, c)
  | (Fuel, c) => (Fuel, c)
  end.
Definition alloc (n : N) : M unit := (Ok tt, n).
Notation "x <- m ;; f" := (bind m (fun x => f)) (at level 61, m at next level, right associativity).
Notation "' p <- m ;; f" := (bind m (fun x => let p := x in f))
  (at level 61, p pattern, m at next level, right associativity).

(* ------------------------------------------------------------------ framing: recvBMPMsg *)

Definition default_buffer_len : N := 4096.
Definition min_len : N := 6.

Inductive grow_res :=
| GDone (cost : N)
| GEof (cost : N)     (* io.ReadFull failed: the stream ended *)
| GPanic (cost : N)
| GFuel.

(* the `for read < l` loop: l = announced length, avail = bytes the stream still holds counted
   from the start of the message, read = bytes of the message received, buflen = len(buffer) *)
Fixpoint grow (fuel : nat) (l avail read buflen cost : N) : grow_res :=
  match fuel with
  | O => GFuel
  | S f =>
    if l <=? read then
      (* return buffer[0:l] *)
      if buflen <? l then GPanic cost else GDone cost
    else
      let '(buflen1, cost1) :=
        if read =? buflen
        then (let nl := N.min (2 * buflen) l in (nl, cost + nl))
        else (buflen, cost) in
      let e := N.min buflen1 l in
      (* io.ReadFull(c, buffer[read:e]) *)
      if e <? read then GPanic cost1
      else if avail <? e then GEof cost1
      else grow f l avail e buflen1 cost1
  end.

Inductive recv_res :=
| RMsg (msg rest : bytes) (cost : N)
| RFail (cost : N)    (* recvBMPMsg returns an error: serve ends *)
| RPanic (cost : N)
| RFuel.

Definition recv (s : bytes) : recv_res :=
  (* buffer := make([]byte, 4096); io.ReadFull(c, buffer[0:6]) *)
  if len s <? min_len then RFail default_buffer_len
  else
    let l := be (firstn 4 (skipn 1 s)) in
    if l <? min_len then RFail default_buffer_len
    else
      match grow (S (length s)) l (len s) min_len default_buffer_len default_buffer_len with
      | GDone c => RMsg (takeN l s) (dropN l s) c
      | GEof c => RFail c
      | GPanic c => RPanic c
      | GFuel => RFuel
      end.

(* ------------------------------------------------------------------ decoders *)

(* binary.Read of n bytes from the buffer *)
Definition rd (n : N) (buf : bytes) : M (bytes * bytes) :=
  if len buf <? n then fail else ret (takeN n buf, dropN n buf).

(* binary.Read into a []byte of length n: allocates a scratch slice of n bytes first *)
Definition rd_slice (n : N) (buf : bytes) : M (bytes * bytes) :=
  _ <- alloc n ;; rd n buf.

Record common_header := mk_ch { ch_version : N; ch_len : N; ch_type : N }.

Definition decode_common_header (buf : bytes) : M (common_header * bytes) :=
  '(v, b1) <- rd 1 buf ;;
  '(l, b2) <- rd 4 b1 ;;
  '(t, b3) <- rd 1 b2 ;;
  ret (mk_ch (be v) (be l) (be t), b3).

Record pph := mk_pph {
  p_type : N; p_flags : N; p_rd : N; p_addr : N; p_as : N; p_bgpid : N; p_ts : N; p_tsus : N }.

Definition per_peer_header_len : N := 42.

Definition decode_pph (buf : bytes) : M (pph * bytes) :=
  '(ty, b1) <- rd 1 buf ;;
  '(fl, b2) <- rd 1 b1 ;;
  '(pd, b3) <- rd 8 b2 ;;
  '(ad, b4) <- rd 16 b3 ;;
  '(asn, b5) <- rd 4 b4 ;;
  '(id, b6) <- rd 4 b5 ;;
  '(ts, b7) <- rd 4 b6 ;;
  '(us, b8) <- rd 4 b7 ;;
  ret (mk_pph (be ty) (be fl) (be pd) (be ad) (be asn) (be id) (be ts) (be us), b8).

(* flags: V = 0x80, L = 0x40, A = 0x20 *)
Definition flag_v (h : pph) : bool := N.testbit (p_flags h) 7.
Definition flag_l (h : pph) : bool := N.testbit (p_flags h) 6.
Definition flag_a (h : pph) : bool := N.testbit (p_flags h) 5.

Record tlv := mk_tlv { t_type : N; t_len : N; t_info : bytes }.

Definition min_information_tlv_len : N := 4.

Definition decode_tlv (buf : bytes) : M (tlv * bytes) :=
  '(ty, b1) <- rd 2 buf ;;
  '(ln, b2) <- rd 2 b1 ;;
  let n := be ln in
  if len b2 <? n then fail
  else
    _ <- alloc n ;;                       (* make([]byte, InformationLength) *)
    '(info, b3) <- rd_slice n b2 ;;
    ret (mk_tlv (be ty) n info, b3).

(* initiation / termination: `for read < toRead` with uint32 counters *)
Fixpoint decode_tlvs32 (fuel : nat) (read to_read : N) (buf : bytes) : M (list tlv) :=
  match fuel with
  | O => (Fuel, 0)
  | S f =>
    if read <? to_read then
      '(t, b1) <- decode_tlv buf ;;
      ts <- decode_tlvs32 f (add32 read (t_len t + min_information_tlv_len)) to_read b1 ;;
      ret (t :: ts)
    else ret []
  end.

(* route mirroring: `for read < toRead` with int counters, toRead = buf.Len() *)
Fixpoint decode_tlvs_int (fuel : nat) (read to_read : N) (buf : bytes) : M (list tlv) :=
  match fuel with
  | O => (Fuel, 0)
  | S f =>
    if read <? to_read then
      '(t, b1) <- decode_tlv buf ;;
      ts <- decode_tlvs_int f (read + t_len t + min_information_tlv_len) to_read b1 ;;
      ret (t :: ts)
    else ret []
  end.

(* statistics report: `for i := 0; i < StatsCount; i++` *)
Fixpoint decode_stats (fuel : nat) (i count : N) (buf : bytes) : M (list tlv) :=
  match fuel with
  | O => (Fuel, 0)
  | S f =>
    if i <? count then
      '(t, b1) <- decode_tlv buf ;;
      ts <- decode_stats f (i + 1) count b1 ;;
      ret (t :: ts)
    else ret []
  end.

Definition open_msg_min_len : N := 29.

(* getOpenMsg *)
Definition get_open_msg (buf : bytes) : M (bytes * bytes) :=
  _ <- alloc open_msg_min_len ;;
  '(msg, b1) <- rd_slice open_msg_min_len buf ;;
  let ol := nth 28 msg 0 in
  if ol =? 0 then ret (msg, b1)
  else
    _ <- alloc ol ;;
    '(opt, b2) <- rd_slice ol b1 ;;
    _ <- alloc (open_msg_min_len + ol) ;;   (* append(msg, optParams...) *)
    ret (msg ++ opt, b2).

Inductive bmp_msg :=
| MRouteMon (h : pph) (upd : bytes)
| MStats (h : pph) (count : N) (stats : list tlv)
| MPeerDown (h : pph) (reason : N) (data : bytes)
| MPeerUp (h : pph) (local : N) (lport rport : N) (sent rcvd info : bytes)
| MInit (tlvs : list tlv)
| MTerm (tlvs : list tlv)
| MMirror (h : pph) (tlvs : list tlv).

Definition common_header_len : N := 6.

Definition decode_route_monitoring (ch : common_header) (buf : bytes) : M bmp_msg :=
  '(h, b1) <- decode_pph buf ;;
  let n := sub32 (sub32 (ch_len ch) common_header_len) per_peer_header_len in
  _ <- alloc n ;;
  '(u, _) <- rd_slice n b1 ;;
  ret (MRouteMon h u).

Definition decode_stats_report (ch : common_header) (buf : bytes) : M bmp_msg :=
  '(h, b1) <- decode_pph buf ;;
  '(c, b2) <- rd 4 b1 ;;
  let count := be c in
  (* uint64(StatsCount) * MinInformationTLVLen > uint64(buf.Len()): the product is taken in 64 bits
     (mul64), where it cannot wrap for a 32 bit count (Proofs: mul64_exact); in 32 bits it would *)
  if len b2 <? mul64 count min_information_tlv_len then fail
  else
    _ <- alloc (8 * count) ;;             (* make([]*InformationTLV, StatsCount) *)
    ts <- decode_stats (S (length b2)) 0 count b2 ;;
    ret (MStats h count ts).

Definition decode_peer_down (ch : common_header) (buf : bytes) : M bmp_msg :=
  '(h, b1) <- decode_pph buf ;;
  '(r, b2) <- rd 1 b1 ;;
  let reason := be r in
  if (reason <? 1) || (3 <? reason) then ret (MPeerDown h reason [])
  else
    let n := sub32 (sub32 (sub32 (ch_len ch) per_peer_header_len) common_header_len) 1 in
    _ <- alloc n ;;
    '(d, _) <- rd_slice n b2 ;;
    ret (MPeerDown h reason d).

Definition decode_peer_up (ch : common_header) (buf : bytes) : M bmp_msg :=
  '(h, b1) <- decode_pph buf ;;
  '(la, b2) <- rd 16 b1 ;;
  '(lp, b3) <- rd 2 b2 ;;
  '(rp, b4) <- rd 2 b3 ;;
  '(sent, b5) <- get_open_msg b4 ;;
  '(rcvd, b6) <- get_open_msg b5 ;;
  if len b6 =? 0 then ret (MPeerUp h (be la) (be lp) (be rp) sent rcvd [])
  else
    _ <- alloc (len b6) ;;
    '(info, _) <- rd_slice (len b6) b6 ;;
    ret (MPeerUp h (be la) (be lp) (be rp) sent rcvd info).

Definition decode_initiation (ch : common_header) (buf : bytes) : M bmp_msg :=
  ts <- decode_tlvs32 (S (length buf)) 0 (sub32 (ch_len ch) common_header_len) buf ;;
  ret (MInit ts).

Definition decode_termination (ch : common_header) (buf : bytes) : M bmp_msg :=
  ts <- decode_tlvs32 (S (length buf)) 0 (sub32 (ch_len ch) common_header_len) buf ;;
  ret (MTerm ts).

Definition decode_route_mirroring (ch : common_header) (buf : bytes) : M bmp_msg :=
  '(h, b1) <- decode_pph buf ;;
  ts <- decode_tlvs_int (S (length b1)) 0 (len b1) b1 ;;
  ret (MMirror h ts).

Definition bmp_version : N := 3.

(* packet.Decode *)
Definition decode (msg : bytes) : M bmp_msg :=
  '(ch, b) <- decode_common_header msg ;;
  if negb (ch_version ch =? bmp_version) then fail
  else
    match ch_type ch with
    | 0 => decode_route_monitoring ch b
    | 1 => decode_stats_report ch b
    | 2 => decode_peer_down ch b
    | 3 => decode_peer_up ch b
    | 4 => decode_initiation ch b
    | 5 => decode_termination ch b
    | 6 => decode_route_mirroring ch b
    | _ => fail
    end.
