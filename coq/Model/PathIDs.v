(* C11: executable model of routingtable/adjRIBOut/path_id_manager.go (pathIDManager).

     ids      map[uint32]uint64   identifier -> reference count
     idByPath map[string]uint32   attribute hash -> identifier
     last     uint32              last identifier handed out   (wraps mod 2^32)
     used     uint32              number of identifiers in use (wraps mod 2^32)

   The key K is what BGPPath.ComputeHash covers (sha256 is modelled as the identity on the hashed
   tuple, DESIGN.md section 4); it is a parameter here and instantiated in Model/AdjRIBOut.v.
   The search loop `for { if ids[last] exists { last++; continue }; break }` is a fuelled fixpoint
   with fuel |ids|+1; running out of fuel is the explicit outcome AddDiverge (the Go loop would
   spin forever), which Proofs/PathIDsProofs.v shows unreachable.  No proofs in this file. *)
From Coq Require Import List NArith Bool.
Import ListNotations.
Local Open Scope N_scope.

Definition w32 : N := 4294967296.
Definition max32 : N := 4294967295.       (* var maxUint32 = ^uint32(0) *)
Definition w64 : N := 18446744073709551616.

Section PathIDs.
  Variable K : Type.
  Variable K_eq_dec : forall a b : K, {a = b} + {a <> b}.

  Record pidm := mkPidm { ids : list (N * N); byk : list (K * N); last : N; used : N }.

  Definition pidm_empty : pidm := mkPidm [] [] 0 0.

  Fixpoint ids_get (i : N) (m : list (N * N)) : option N :=
    match m with
    | [] => None
    | (j, c) :: m' => if N.eqb j i then Some c else ids_get i m'
    end.

  (* Go map assignment: overwrite or insert *)
  Fixpoint ids_set (i c : N) (m : list (N * N)) : list (N * N) :=
    match m with
    | [] => [(i, c)]
    | (j, d) :: m' => if N.eqb j i then (j, c) :: m' else (j, d) :: ids_set i c m'
    end.

  Definition ids_del (i : N) (m : list (N * N)) : list (N * N) :=
    filter (fun jc => negb (N.eqb (fst jc) i)) m.

  Fixpoint byk_get (k : K) (m : list (K * N)) : option N :=
    match m with
    | [] => None
    | (k', i) :: m' => if K_eq_dec k' k then Some i else byk_get k m'
    end.

  Definition byk_del (k : K) (m : list (K * N)) : list (K * N) :=
    filter (fun ki => if K_eq_dec (fst ki) k then false else true) m.

  (* the loop after `fm.last++`: first identifier from cand upwards (mod 2^32) that is not in ids *)
  Fixpoint next_free (fuel : nat) (cand : N) (m : list (N * N)) : option N :=
    match fuel with
    | O => None
    | S f => match ids_get cand m with
             | Some _ => next_free f ((cand + 1) mod w32) m
             | None => Some cand
             end
    end.

  Inductive addres := AddOk (id : N) | AddErr | AddDiverge.

  Definition refcount (i : N) (m : list (N * N)) : N :=
    match ids_get i m with Some c => c | None => 0 end.

  (* pathIDManager.addPath *)
  Definition pid_add (k : K) (m : pidm) : pidm * addres :=
    match byk_get k (byk m) with
    | Some id =>
      (mkPidm (ids_set id (refcount id (ids m) + 1) (ids m)) (byk m) (last m) (used m), AddOk id)
    | None =>
      if N.eqb (used m) max32 then (m, AddErr)
      else match next_free (S (length (ids m))) ((last m + 1) mod w32) (ids m) with
           | None => (m, AddDiverge)
           | Some id =>
             (mkPidm ((id, 1) :: ids m) ((k, id) :: byk m) id ((used m + 1) mod w32), AddOk id)
           end
    end.

  (* uint64 decrement *)
  Definition dec64 (c : N) : N := if N.eqb c 0 then w64 - 1 else c - 1.

  (* pathIDManager.releasePath (after fix c2931dd9: `used--` only when the identifier is freed);
     None = "ID not found for path" *)
  Definition pid_release (k : K) (m : pidm) : pidm * option N :=
    match byk_get k (byk m) with
    | None => (m, None)
    | Some id =>
      let c' := dec64 (refcount id (ids m)) in
      if N.eqb c' 0
      then (mkPidm (ids_del id (ids m)) (byk_del k (byk m)) (last m) ((used m + w32 - 1) mod w32), Some id)
      else (mkPidm (ids_set id c' (ids m)) (byk m) (last m) (used m), Some id)
    end.
End PathIDs.

Arguments mkPidm {K}.
Arguments ids {K}.
Arguments byk {K}.
Arguments last {K}.
Arguments used {K}.
Arguments pidm_empty {K}.
