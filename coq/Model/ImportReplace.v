(* C12, import side: what AdjRIBIn.ReplaceFilterChain does to the Loc-RIB.

   rin: the Adj-RIB-In's table - prefix, the path as stored (after validatePath and the default
   LOCAL_PREF), hidden (ineligible: never announced).  loc: the Loc-RIB's paths as (prefix, path) entries.
   The Adj-RIB-In talks to the Loc-RIB as a RouteTableClient:
     AddPath      route.AddPath: append
     RemovePath   route.RemovePath: drop the first path of the prefix that Compares equal
     ReplacePath  Route.ReplacePath: overwrite the first path of the prefix that is Equal (same path id and
                  Select() == 0) to the old one
   (the Loc-RIB re-sorts afterwards; which path is "first" only matters when two stored paths cannot be told
   apart, which the guards of the theorem exclude).  Describes adj_rib_in.go after the fixes 71a05415,
   fd55738e, cda240d2 of the Adj-RIB-In builder.  fc / fn: old and new import policy.  No proofs here. *)
From Coq Require Import List NArith Bool.
Import ListNotations.
From BioVerif Require Import Model.PathIDs Model.AdjRIBOut.
Local Open Scope N_scope.

Definition rin := list (N * path * bool).
Definition loc := list (N * path).

Definition loc_add (pfx : N) (q : path) (l : loc) : loc := l ++ [(pfx, q)].

Definition loc_remove (pfx : N) (q : path) (l : loc) : loc := tbl_remove_first pfx q l.

Fixpoint loc_replace (pfx : N) (old new : path) (l : loc) : loc :=
  match l with
  | [] => []
  | (k, x) :: l' =>
    if N.eqb k pfx && path_equal x old then (k, new) :: l' else (k, x) :: loc_replace pfx old new l'
  end.

Section Import.
  Variables fc fn : N -> path -> option path.

  (* what a session established with policy f announces: UpdateNewClient / addPath for every eligible path *)
  Definition establish (f : N -> path -> option path) (r : rin) : loc :=
    flat_map (fun e => match e with
                       | (pfx, p, true) => []
                       | (pfx, p, false) => match f pfx p with Some q => [(pfx, q)] | None => [] end
                       end) r.

  (* AdjRIBIn.ReplaceFilterChain, one stored path *)
  Definition replace_one (l : loc) (e : N * path * bool) : loc :=
    match e with
    | (pfx, p, true) => l
    | (pfx, p, false) =>
      match fc pfx p, fn pfx p with
      | None, None => l
      | None, Some qn => loc_add pfx qn l
      | Some qc, None => loc_remove pfx qc l
      | Some qc, Some qn => if path_compare qc qn then l else loc_replace pfx qc qn l
      end
    end.

  Definition replace_in (r : rin) (l : loc) : loc := fold_left replace_one r l.
End Import.

(* what tells stored paths apart for Compare and Equal alike: the source and the path identifier *)
Definition pkey (p : path) : option (N * N) :=
  match p with PBgp _ b => Some (b_src b, b_pid b) | PStatic _ => None end.

(* filter.Chain.Equal on the policy language: same shape, same route filters (same prefix objects), actions
   Equal one by one - SetLocalPref/SetMED compare their value, SetNextHop its (deduplicated) address,
   ASPathPrepend asn and times *)
Definition action_eqb (a b : action) : bool :=
  match a, b with
  | ASetLP x, ASetLP y => N.eqb x y
  | ASetMED x, ASetMED y => N.eqb x y
  | ASetNH x, ASetNH y => N.eqb x y
  | APrepend x t, APrepend y u => N.eqb x y && N.eqb (t mod 65536) (u mod 65536)
  | AAccept, AAccept => true
  | AReject, AReject => true
  | _, _ => false
  end.

Definition term_eqb (a b : term) : bool :=
  list_eqb (list_eqb N.eqb) (t_from a) (t_from b) && list_eqb action_eqb (t_then a) (t_then b).

Definition chain_eqb (c d : chain) : bool := list_eqb (list_eqb term_eqb) c d.

(* ------------------------------------------------------------------ the session's two chains and the skip test *)

(* fsmAddressFamily keeps the import and the export chain of the session, established or not;
   replaceImportFilterChain / replaceExportFilterChain (protocols/bgp/server/fsm_address_family.go) do nothing
   when the new chain Equals the current chain OF THE SAME DIRECTION; otherwise they store it - whether or not
   the session is up - and, if the RIBs exist (fam_up), call ReplaceFilterChain on the Adj-RIB-In / Adj-RIB-Out.
   init() builds the RIBs from the stored chains; dispose() throws them away. *)
Record family := mkFam { fam_imp : chain; fam_exp : chain; fam_up : bool }.

Definition fam_replace_export (s : sess) (x : family * aro chain) (c : chain) (v : list (N * list path))
  : family * aro chain :=
  if chain_eqb c (fam_exp (fst x)) then x
  else (mkFam (fam_imp (fst x)) c (fam_up (fst x)),
        if fam_up (fst x) then replace_chain chain interp s (snd x) c v else snd x).

Definition fam_replace_import (x : family * loc) (r : rin) (c : chain) : family * loc :=
  if chain_eqb c (fam_imp (fst x)) then x
  else (mkFam c (fam_exp (fst x)) (fam_up (fst x)),
        if fam_up (fst x) then replace_in (interp (fam_imp (fst x))) (interp c) r (snd x) else snd x).

(* init(): a new Adj-RIB-Out with the stored export chain is registered with the Loc-RIB, which hands it the
   first-n paths of every route (UpdateNewClient): one AddPath per path of the view *)
Definition fam_init_export (s : sess) (f : family) (v : list (N * list path)) : family * aro chain :=
  (mkFam (fam_imp f) (fam_exp f) true,
   fold_left (fun a e => fold_left (fun a p => add_path chain interp s a (fst e) p) (snd e) a) v (init chain (fam_exp f))).

Definition fam_dispose (f : family) : family := mkFam (fam_imp f) (fam_exp f) false.
