(* C36 - configuration reload of the bio-rd daemon (BGP part).

   Executable model of
     cmd/bio-rd/config      Config.load / BGPGroup.load / BGPNeighbor.load  -> [load]
     cmd/bio-rd/main.go     loadConfig / configureRoutingInstance           -> [reload], [configure_ri]
     cmd/bio-rd/bgp.go      bgpConfigurator.configure and helpers           -> [configure] ...
     protocols/bgp/server   PeerConfig.NeedsRestart, newPeer, AddPeer, DisposePeer,
                            GetPeerConfig, Replace{Import,Export}FilterChain -> [needs_restart], [new_peer] ...
   No proofs here.

   Abstractions (all exercised by the correspondence harness):
   - names (policy statements, routing instances), authentication keys, addresses and policy
     contents are numbers; a filter chain is the list of the contents of its filters (the Go code
     compares chains by content: filter.Chain.Equal); content 0 is "reject everything", which is
     also the content of the default (drain) chain.
   - a peer configuration carries one import and one export chain: the configurator gives both
     address families of a neighbor the same chains (bgpConfigurator.newAFIConfig) and the
     replacement functions set both families.
   - a VRF object is identified by its name and route distinguisher (the Go code compares
     pointers; a changed route distinguisher creates a new object). *)
From Coq Require Import List NArith PArith Bool.
Import ListNotations.
Local Open Scope N_scope.

(* ------------------------------------------------------------------ configuration file *)

Definition pname := N.
Definition content := N.
Definition chain := list content.

Record addr := { a_v4 : bool; a_id : N }.

(* address_family.add_path.send / add_path / ipv4|ipv6 *)
Record apsend := { aps_multipath : bool; aps_count : N }.
Record addpath := { ap_recv : bool; ap_send : option apsend }.
Record afconf := { af_addpath : option addpath; af_nhx : bool }.

(* config.BGPNeighbor as written in the file: 0 / [] / None = not set *)
Record neighbor := {
  n_addr : addr;
  n_local : option addr;
  n_disabled : bool;
  n_ttl : N;
  n_auth : N;
  n_pas : N;
  n_las : N;
  n_hold : N;
  n_import : list pname;
  n_export : list pname;
  n_rsc : option bool;
  n_rrc : option bool;
  n_passive : option bool;
  n_cluster : option N;
  n_v4 : option afconf;
  n_v6 : option afconf;
  n_mp4 : bool;
  n_ri : option positive }.

(* config.BGPGroup *)
Record group := {
  g_local : option addr;
  g_ttl : N;
  g_auth : N;
  g_pas : N;
  g_las : N;
  g_hold : N;
  g_import : list pname;
  g_export : list pname;
  g_rsc : option bool;
  g_rrc : option bool;
  g_passive : option bool;
  g_cluster : option N;
  g_v4 : option afconf;
  g_v6 : option afconf;
  g_ri : option positive;
  g_neighbors : list neighbor }.

(* config.Config: routing_options (autonomous_system, router_id), policy_options
   (name -> content), routing_instances (name -> route distinguisher), protocols.bgp.groups
   (None: no bgp section) *)
Record config := {
  c_as : N;
  c_rid : N;
  c_policies : list (pname * content);
  c_ris : list (positive * N);
  c_groups : option (list group) }.

(* ------------------------------------------------------------------ loading (inheritance) *)

(* a neighbor after BGPGroup.load / BGPNeighbor.load *)
Record lneighbor := {
  ln_addr : addr;
  ln_local : option addr;
  ln_disabled : bool;
  ln_ttl : N;
  ln_auth : N;
  ln_pas : N;
  ln_las : N;
  ln_hold : N;
  ln_import : chain;
  ln_export : chain;
  ln_rsc : option bool;
  ln_rrc : option bool;
  ln_passive : option bool;
  ln_cluster : option N;
  ln_v4 : option afconf;
  ln_v6 : option afconf;
  ln_mp4 : bool;
  ln_ri : option positive }.

Record loaded := {
  l_ris : list (positive * N);
  l_nbrs : list lneighbor }.

(* PolicyOptions.getPolicyStatementFilter: the first statement with that name *)
Fixpoint policy_by_name (pols : list (pname * content)) (x : pname) : option content :=
  match pols with
  | [] => None
  | (n, c) :: r => if n =? x then Some c else policy_by_name r x
  end.

(* "policy statement %q undefined" = None *)
Fixpoint resolve (pols : list (pname * content)) (names : list pname) : option chain :=
  match names with
  | [] => Some []
  | x :: r =>
    match policy_by_name pols x, resolve pols r with
    | Some c, Some cs => Some (c :: cs)
    | _, _ => None
    end
  end.

Definition or_else {A} (a b : option A) : option A :=
  match a with Some _ => a | None => b end.

Definition nz_or (a b : N) : N := if a =? 0 then b else a.

Definition DefaultHoldTimeSeconds : N := 90.

(* the loop body of BGPGroup.load followed by BGPNeighbor.load; gi/ge are the group's chains,
   glas/ghold the group's local AS and hold time after their own defaulting *)
Definition load_neighbor (pols : list (pname * content)) (g : group) (glas ghold : N)
           (gi ge : chain) (n : neighbor) : option lneighbor :=
  let las := nz_or (n_las n) glas in
  let pas := nz_or (n_pas n) (g_pas g) in
  if las =? 0 then None            (* local_as 0 is invalid *)
  else if pas =? 0 then None       (* peer_as 0 is invalid *)
  else
    match (match n_import n with [] => Some gi | _ => resolve pols (n_import n) end),
          (match n_export n with [] => Some ge | _ => resolve pols (n_export n) end) with
    | Some ci, Some ce =>
      Some {| ln_addr := n_addr n;
              ln_local := or_else (n_local n) (g_local g);
              ln_disabled := n_disabled n;
              ln_ttl := nz_or (n_ttl n) (g_ttl g);
              ln_auth := nz_or (n_auth n) (g_auth g);
              ln_pas := pas;
              ln_las := las;
              ln_hold := nz_or (n_hold n) ghold;
              ln_import := ci;
              ln_export := ce;
              ln_rsc := or_else (n_rsc n) (g_rsc g);
              ln_rrc := or_else (n_rrc n) (g_rrc g);
              ln_passive := or_else (n_passive n) (g_passive g);
              ln_cluster := or_else (n_cluster n) (g_cluster g);
              ln_v4 := or_else (n_v4 n) (g_v4 g);
              ln_v6 := or_else (n_v6 n) (g_v6 g);
              ln_mp4 := n_mp4 n;
              ln_ri := or_else (n_ri n) (g_ri g) |}
    | _, _ => None
    end.

Fixpoint load_neighbors (pols : list (pname * content)) (g : group) (glas ghold : N)
         (gi ge : chain) (ns : list neighbor) : option (list lneighbor) :=
  match ns with
  | [] => Some []
  | n :: r =>
    match load_neighbor pols g glas ghold gi ge n, load_neighbors pols g glas ghold gi ge r with
    | Some x, Some xs => Some (x :: xs)
    | _, _ => None
    end
  end.

(* BGPGroup.load *)
Definition load_group (localAS : N) (pols : list (pname * content)) (g : group)
  : option (list lneighbor) :=
  let glas := nz_or (g_las g) localAS in
  let ghold := nz_or (g_hold g) DefaultHoldTimeSeconds in
  match resolve pols (g_import g), resolve pols (g_export g) with
  | Some gi, Some ge => load_neighbors pols g glas ghold gi ge (g_neighbors g)
  | _, _ => None
  end.

Fixpoint load_groups (localAS : N) (pols : list (pname * content)) (gs : list group)
  : option (list lneighbor) :=
  match gs with
  | [] => Some []
  | g :: r =>
    match load_group localAS pols g, load_groups localAS pols r with
    | Some x, Some xs => Some (x ++ xs)
    | _, _ => None
    end
  end.

(* config.GetConfig; None = the file is rejected *)
Definition load (c : config) : option loaded :=
  match c_groups c with
  | None => Some {| l_ris := c_ris c; l_nbrs := [] |}
  | Some gs =>
    match load_groups (c_as c) (c_policies c) gs with
    | Some ns => Some {| l_ris := c_ris c; l_nbrs := ns |}
    | None => None
    end
  end.

(* ------------------------------------------------------------------ BGP server side *)

Inductive vrf := VDefault | VNamed (name : positive) (rd : N).

(* the non-chain part of server.AddressFamilyConfig *)
Record afset := { as_aprx : bool; as_best : bool; as_max : N; as_nhx : bool }.

(* server.PeerConfig (ReconnectInterval is a constant of the configurator; PeerRole,
   PeerRoleStrictMode and Description are never set by it) *)
Record pconf := {
  pc_vrf : vrf;
  pc_addr : addr;
  pc_auth : N;
  pc_admin : bool;
  pc_hold : N;
  pc_ka : N;
  pc_local : option addr;
  pc_ttl : N;
  pc_las : N;
  pc_pas : N;
  pc_passive : bool;
  pc_rid : N;
  pc_rsc : bool;
  pc_rrc : bool;
  pc_cluster : N;
  pc_mp4 : bool;
  pc_v4 : option afset;
  pc_v6 : option afset;
  pc_import : chain;
  pc_export : chain }.

Inductive cap :=
| CapAddPath (afi sendreceive : N)
| CapASN4 (asn : N)
| CapNextHopExt
| CapMP (afi : N).

(* peerAddressFamily without the chains: addPathReceive, addPathSend.BestOnly, .MaxPaths *)
Record pafset := { pa_aprx : bool; pa_best : bool; pa_max : N }.

(* server.peer: the stored config, what newPeer derives from it, the chains new FSMs start
   from (p_import/p_export, of both families) and the chains of the FSM an active peer owns *)
Record peer := {
  p_cfg : pconf;
  p_hold : N;
  p_ka : N;
  p_local : option addr;
  p_ttl : N;
  p_las : N;
  p_pas : N;
  p_passive : bool;
  p_rid : N;
  p_rsc : bool;
  p_rrc : bool;
  p_cluster : N;
  p_mp4adv : bool;
  p_nhxadv : bool;
  p_caps : list cap;
  p_v4 : option pafset;
  p_v6 : option pafset;
  p_import : chain;
  p_export : chain;
  p_fsm : option (chain * chain) }.

Definition key := (vrf * addr)%type.

(* the daemon: router id of the BGP server (fixed at start), VRF registry (name -> route
   distinguisher of the current object), the server's peer map *)
Record state := {
  s_rid : N;
  s_vrfs : list (positive * N);
  s_peers : list (key * peer) }.

(* ---- equality tests *)
Definition addr_eqb (a b : addr) : bool :=
  Bool.eqb (a_v4 a) (a_v4 b) && (a_id a =? a_id b).

Definition vrf_eqb (a b : vrf) : bool :=
  match a, b with
  | VDefault, VDefault => true
  | VNamed n r, VNamed n' r' => Pos.eqb n n' && (r =? r')
  | _, _ => false
  end.

Definition key_eqb (a b : key) : bool :=
  vrf_eqb (fst a) (fst b) && addr_eqb (snd a) (snd b).

Definition opt_eqb {A} (e : A -> A -> bool) (a b : option A) : bool :=
  match a, b with
  | None, None => true
  | Some x, Some y => e x y
  | _, _ => false
  end.

Definition afset_eqb (a b : afset) : bool :=
  Bool.eqb (as_aprx a) (as_aprx b) && Bool.eqb (as_best a) (as_best b)
  && (as_max a =? as_max b) && Bool.eqb (as_nhx a) (as_nhx b).

(* ---- peer map *)
Fixpoint lookup (k : key) (l : list (key * peer)) : option peer :=
  match l with
  | [] => None
  | (k', p) :: r => if key_eqb k' k then Some p else lookup k r
  end.

Definition remove (k : key) (l : list (key * peer)) : list (key * peer) :=
  filter (fun e => negb (key_eqb (fst e) k)) l.

(* ---- PeerConfig.NeedsRestart (true = the session has to be replaced); the chains are not
   compared. Order of the Go function. *)
Definition needs_restart (a b : pconf) : bool :=
  negb (pc_auth a =? pc_auth b)
  || negb (pc_las a =? pc_las b)
  || negb (pc_pas a =? pc_pas b)
  || negb (opt_eqb addr_eqb (pc_local a) (pc_local b))
  || negb (pc_hold a =? pc_hold b)
  || negb (Bool.eqb (pc_rrc a) (pc_rrc b))
  || negb (Bool.eqb (pc_rsc a) (pc_rsc b))
  || negb (vrf_eqb (pc_vrf a) (pc_vrf b))
  || negb (pc_rid a =? pc_rid b)
  || negb (Bool.eqb (pc_passive a) (pc_passive b))
  || negb (Bool.eqb (pc_admin a) (pc_admin b))
  || negb (pc_ttl a =? pc_ttl b)
  || negb (pc_ka a =? pc_ka b)
  || negb (pc_cluster a =? pc_cluster b)
  || negb (Bool.eqb (pc_mp4 a) (pc_mp4 b))
  || negb (opt_eqb afset_eqb (pc_v4 a) (pc_v4 b))
  || negb (opt_eqb afset_eqb (pc_v6 a) (pc_v6 b)).

(* ---- newPeer *)
Definition filter_or_default (c : chain) : chain :=
  match c with [] => [0] | _ => c end.

Definition AFIIPv4 : N := 1.
Definition AFIIPv6 : N := 2.

(* addPathCapabilityForFamily *)
Definition addpath_caps (afi : N) (f : option afset) : list cap :=
  match f with
  | None => []
  | Some s =>
    let v := (if as_aprx s then 1 else 0) + (if as_best s then 0 else 2) in
    if v =? 0 then [] else [CapAddPath afi v]
  end.

Definition caps_of (c : pconf) : list cap :=
  addpath_caps AFIIPv4 (pc_v4 c) ++ addpath_caps AFIIPv6 (pc_v6 c)
  ++ [CapASN4 (pc_las c)]
  ++ match pc_v4 c with
     | None => []
     | Some s => (if as_nhx s then [CapNextHopExt; CapMP AFIIPv4] else [])
                 ++ (if pc_mp4 c then [CapMP AFIIPv4] else [])
     end
  ++ match pc_v6 c with None => [] | Some _ => [CapMP AFIIPv6] end.

Definition paf_of (s : afset) : pafset :=
  {| pa_aprx := as_aprx s; pa_best := as_best s; pa_max := as_max s |}.

Definition new_peer (c : pconf) : peer :=
  {| p_cfg := c;
     p_hold := pc_hold c;
     p_ka := pc_ka c;
     p_local := pc_local c;
     p_ttl := pc_ttl c;
     p_las := pc_las c;
     p_pas := pc_pas c;
     p_passive := pc_passive c;
     p_rid := pc_rid c;
     p_rsc := pc_rsc c;
     p_rrc := pc_rrc c;
     p_cluster := if pc_rrc c && (pc_cluster c =? 0) then pc_rid c else pc_cluster c;
     p_mp4adv := match pc_v4 c with Some s => as_nhx s || pc_mp4 c | None => false end;
     p_nhxadv := match pc_v4 c with Some s => as_nhx s | None => false end;
     p_caps := caps_of c;
     p_v4 := option_map paf_of (pc_v4 c);
     p_v6 := option_map paf_of (pc_v6 c);
     p_import := filter_or_default (pc_import c);
     p_export := filter_or_default (pc_export c);
     p_fsm := if pc_passive c then None
              else Some (filter_or_default (pc_import c), filter_or_default (pc_export c)) |}.

(* ---- peer.replaceImportFilterChain / replaceExportFilterChain *)
Definition set_import (c : pconf) (ci : chain) : pconf :=
  {| pc_vrf := pc_vrf c; pc_addr := pc_addr c; pc_auth := pc_auth c; pc_admin := pc_admin c;
     pc_hold := pc_hold c; pc_ka := pc_ka c; pc_local := pc_local c; pc_ttl := pc_ttl c;
     pc_las := pc_las c; pc_pas := pc_pas c; pc_passive := pc_passive c; pc_rid := pc_rid c;
     pc_rsc := pc_rsc c; pc_rrc := pc_rrc c; pc_cluster := pc_cluster c; pc_mp4 := pc_mp4 c;
     pc_v4 := pc_v4 c; pc_v6 := pc_v6 c; pc_import := ci; pc_export := pc_export c |}.

Definition set_export (c : pconf) (ce : chain) : pconf :=
  {| pc_vrf := pc_vrf c; pc_addr := pc_addr c; pc_auth := pc_auth c; pc_admin := pc_admin c;
     pc_hold := pc_hold c; pc_ka := pc_ka c; pc_local := pc_local c; pc_ttl := pc_ttl c;
     pc_las := pc_las c; pc_pas := pc_pas c; pc_passive := pc_passive c; pc_rid := pc_rid c;
     pc_rsc := pc_rsc c; pc_rrc := pc_rrc c; pc_cluster := pc_cluster c; pc_mp4 := pc_mp4 c;
     pc_v4 := pc_v4 c; pc_v6 := pc_v6 c; pc_import := pc_import c; pc_export := ce |}.

Definition with_cfg_chains (p : peer) (c : pconf) (pi pe : chain) (f : option (chain * chain)) : peer :=
  {| p_cfg := c; p_hold := p_hold p; p_ka := p_ka p; p_local := p_local p; p_ttl := p_ttl p;
     p_las := p_las p; p_pas := p_pas p; p_passive := p_passive p; p_rid := p_rid p;
     p_rsc := p_rsc p; p_rrc := p_rrc p; p_cluster := p_cluster p; p_mp4adv := p_mp4adv p;
     p_nhxadv := p_nhxadv p; p_caps := p_caps p; p_v4 := p_v4 p; p_v6 := p_v6 p;
     p_import := pi; p_export := pe; p_fsm := f |}.

Definition replace_import (p : peer) (ci : chain) : peer :=
  let e := filter_or_default ci in
  with_cfg_chains p (set_import (p_cfg p) ci) e (p_export p)
                  (match p_fsm p with Some (_, fe) => Some (e, fe) | None => None end).

Definition replace_export (p : peer) (ce : chain) : peer :=
  let e := filter_or_default ce in
  with_cfg_chains p (set_export (p_cfg p) ce) (p_import p) e
                  (match p_fsm p with Some (fi, _) => Some (fi, e) | None => None end).

(* ---- BGPServer operations on the state *)
Definition with_peers (s : state) (ps : list (key * peer)) : state :=
  {| s_rid := s_rid s; s_vrfs := s_vrfs s; s_peers := ps |}.

Definition get_peer_config (s : state) (k : key) : option pconf :=
  option_map p_cfg (lookup k (s_peers s)).

(* DisposePeer: the peer's FSMs are ceased and it leaves the map *)
Definition dispose_peer (s : state) (k : key) : state :=
  with_peers s (remove k (s_peers s)).

(* outcome of the configurator: Ok / "unable to ..." error (configuration partially applied) /
   runtime panic *)
Inductive res := Ok (s : state) | Err (s : state) | Panicked.

(* AddPeer: c.LocalAddress.Dedup() dereferences a nil local address *)
Definition add_peer (s : state) (c : pconf) : res :=
  match pc_local c with
  | None => Panicked
  | Some _ =>
    let k := (pc_vrf c, pc_addr c) in
    Ok (with_peers s ((k, new_peer c) :: remove k (s_peers s)))
  end.

(* ReplaceImportFilterChain / ReplaceExportFilterChain: error when the peer is unknown *)
Definition srv_replace (f : peer -> chain -> peer) (s : state) (k : key) (c : chain) : res :=
  match lookup k (s_peers s) with
  | None => Err s
  | Some p => Ok (with_peers s ((k, f p c) :: remove k (s_peers s)))
  end.

(* ------------------------------------------------------------------ the configurator (bgp.go) *)

Fixpoint vrf_by_name (vs : list (positive * N)) (n : positive) : option vrf :=
  match vs with
  | [] => None
  | (m, rd) :: r => if Pos.eqb m n then Some (VNamed m rd) else vrf_by_name r n
  end.

(* determineVRF: None = "could not find VRF for name" *)
Definition determine_vrf (vs : list (positive * N)) (n : lneighbor) : option vrf :=
  match ln_ri n with
  | Some name => vrf_by_name vs name
  | None => Some VDefault
  end.

Definition bool_of (o : option bool) : bool := match o with Some b => b | None => false end.

(* newAFIConfig + configureAddressFamily + configureAddPath *)
Definition afset_of (baf : option afconf) : afset :=
  match baf with
  | None => {| as_aprx := false; as_best := true; as_max := 0; as_nhx := false |}
  | Some f =>
    match af_addpath f with
    | None => {| as_aprx := false; as_best := true; as_max := 0; as_nhx := af_nhx f |}
    | Some ap =>
      match ap_send ap with
      | None => {| as_aprx := ap_recv ap; as_best := true; as_max := 0; as_nhx := af_nhx f |}
      | Some sd => {| as_aprx := ap_recv ap; as_best := negb (aps_multipath sd);
                      as_max := aps_count sd; as_nhx := af_nhx f |}
      end
    end
  end.

Definition is_some {A} (o : option A) : bool := match o with Some _ => true | None => false end.

(* newPeerConfig *)
Definition new_peer_config (rid : N) (v : vrf) (n : lneighbor) : pconf :=
  {| pc_vrf := v;
     pc_addr := ln_addr n;
     pc_auth := ln_auth n;
     pc_admin := negb (ln_disabled n);
     pc_hold := ln_hold n;
     pc_ka := ln_hold n / 3;
     pc_local := ln_local n;
     pc_ttl := ln_ttl n;
     pc_las := ln_las n;
     pc_pas := ln_pas n;
     pc_passive := bool_of (ln_passive n);
     pc_rid := rid;
     pc_rsc := bool_of (ln_rsc n);
     pc_rrc := bool_of (ln_rrc n);
     pc_cluster := match ln_cluster n with Some x => x | None => 0 end;
     pc_mp4 := ln_mp4 n;
     pc_v4 := if a_v4 (ln_addr n) || is_some (ln_v4 n) then Some (afset_of (ln_v4 n)) else None;
     pc_v6 := if negb (a_v4 (ln_addr n)) || is_some (ln_v6 n) then Some (afset_of (ln_v6 n)) else None;
     pc_import := ln_import n;
     pc_export := ln_export n |}.

(* reconfigureModifiedSession *)
Definition reconfigure_modified (s : state) (n : lneighbor) (newc oldc : pconf) : res :=
  if needs_restart oldc newc then
    (* replaceSession *)
    add_peer (dispose_peer s (pc_vrf oldc, pc_addr oldc)) newc
  else
    let k := (pc_vrf newc, ln_addr n) in
    match srv_replace replace_import s k (ln_import n) with
    | Ok s1 => srv_replace replace_export s1 k (ln_export n)
    | r => r
    end.

(* configureSession *)
Definition configure_session (s : state) (n : lneighbor) : res :=
  match determine_vrf (s_vrfs s) n with
  | None => Err s
  | Some v =>
    let newc := new_peer_config (s_rid s) v n in
    match get_peer_config s (v, ln_addr n) with
    | Some oldc => reconfigure_modified s n newc oldc
    | None => add_peer s newc
    end
  end.

Fixpoint configure_sessions (s : state) (ns : list lneighbor) : res :=
  match ns with
  | [] => Ok s
  | n :: r =>
    match configure_session s n with
    | Ok s1 => configure_sessions s1 r
    | e => e
    end
  end.

(* Instrument for the correspondence check (not used by the configurator): the keys of the
   sessions a run of configure_sessions replaces (dispose + add) instead of updating in place. *)
Definition session_restarts (s : state) (n : lneighbor) : list key :=
  match determine_vrf (s_vrfs s) n with
  | None => []
  | Some v =>
    match get_peer_config s (v, ln_addr n) with
    | Some oldc => if needs_restart oldc (new_peer_config (s_rid s) v n) then [(v, ln_addr n)] else []
    | None => []
    end
  end.

Fixpoint restarted_keys (s : state) (ns : list lneighbor) : list key :=
  match ns with
  | [] => []
  | n :: r =>
    session_restarts s n ++
    match configure_session s n with
    | Ok s1 => restarted_keys s1 r
    | _ => []
    end
  end.

(* peerExistsInConfig *)
Definition peer_exists_in_config (vs : list (positive * N)) (ns : list lneighbor) (k : key) : bool :=
  existsb (fun n => match determine_vrf vs n with
                    | Some v => addr_eqb (ln_addr n) (snd k) && vrf_eqb (fst k) v
                    | None => false
                    end) ns.

(* deconfigureRemovedSessions *)
Definition deconfigure_removed (s : state) (ns : list lneighbor) : state :=
  with_peers s (filter (fun e => peer_exists_in_config (s_vrfs s) ns (fst e)) (s_peers s)).

(* bgpConfigurator.configure *)
Definition configure (s : state) (ns : list lneighbor) : res :=
  match configure_sessions s ns with
  | Ok s1 => Ok (deconfigure_removed s1 ns)
  | e => e
  end.

(* ------------------------------------------------------------------ main.go *)

Fixpoint set_vrf (vs : list (positive * N)) (n : positive) (rd : N) : list (positive * N) :=
  match vs with
  | [] => [(n, rd)]
  | (m, r) :: t => if Pos.eqb m n then (m, rd) :: t else (m, r) :: set_vrf t n rd
  end.

(* configureRoutingInstance: create the VRF if it is new, re-create it when the route
   distinguisher changed *)
Definition configure_ri (s : state) (ri : positive * N) : state :=
  {| s_rid := s_rid s; s_vrfs := set_vrf (s_vrfs s) (fst ri) (snd ri); s_peers := s_peers s |}.

Inductive outcome :=
| Applied (s : state)      (* "Configuration reloaded" *)
| ApplyErr (s : state)     (* "unable to load config": configurator error, daemon goes on *)
| LoadErr (s : state)      (* "Failed to get config": nothing changed *)
| Crashed.                 (* runtime panic *)

(* one turn of configReloader: GetConfig + loadConfig *)
Definition reload (s : state) (c : config) : outcome :=
  match load c with
  | None => LoadErr s
  | Some l =>
    match configure (fold_left configure_ri (l_ris l) s) (l_nbrs l) with
    | Ok s1 => Applied s1
    | Err s1 => ApplyErr s1
    | Panicked => Crashed
    end
  end.

(* Instrument: the sessions that existed before the reload and were restarted by it *)
Definition reload_restarts (s : state) (c : config) : list key :=
  match load c with
  | None => []
  | Some l =>
    filter (fun k => is_some (lookup k (s_peers s)))
           (restarted_keys (fold_left configure_ri (l_ris l) s) (l_nbrs l))
  end.

(* main(): the BGP server gets the router id of the start configuration *)
Definition init (rid : N) : state := {| s_rid := rid; s_vrfs := []; s_peers := [] |}.

(* starting the daemon with a configuration; None = main() exits *)
Definition start (c : config) : option outcome :=
  match load c with
  | None => None
  | Some _ => Some (reload (init (c_rid c)) c)
  end.

Definition state_of (o : outcome) : option state :=
  match o with
  | Applied s | ApplyErr s | LoadErr s => Some s
  | Crashed => None
  end.

(* a daemon life: start with c, then reload cs one after the other; None = the daemon is gone *)
Fixpoint reloads (s : state) (cs : list config) : option state :=
  match cs with
  | [] => Some s
  | c :: r =>
    match state_of (reload s c) with
    | Some s1 => reloads s1 r
    | None => None
    end
  end.

Definition run (c : config) (cs : list config) : option state :=
  match start c with
  | Some o => match state_of o with Some s => reloads s cs | None => None end
  | None => None
  end.
