(* C33: executable model of protocols/isis/server/net_ifa.go (DeviceUpdate, _start, _stop), the
   hello sender / receiver routines' life cycle (hello_sender.go, net_ifa_rx.go) and of the places
   of the periodic server routines that touch per-interface state which only exists after a link
   came up (lsdb.go:sendPSNPss -> ethernet handle; lsp.go:generateLocalLSP -> device status).

   Go operations that can panic or block are modelled as primitives with explicit outcomes:
   close of a closed channel, a method call on a nil interface value (ethernet handle, device
   status) and sync.WaitGroup.Wait on routines that cannot leave. The model composes these
   primitives in the order and under the guards of the Go source, so "no Panic / no Blocked" is a
   statement about the guards and the invariants of the interface state, not about a totalised
   function. No proofs in this file. *)
From Coq Require Import List Bool Arith.
Import ListNotations.

Inductive panic := CloseOfClosedChannel | NilHandle | NilDevStatus.
Inductive block := WaitHelloSender | WaitReceiver.

Inductive outcome (A : Type) :=
| Ok (a : A)
| Panic (p : panic)
| Blocked (b : block).
Arguments Ok {A} a.
Arguments Panic {A} p.
Arguments Blocked {A} b.

Definition bind {A B : Type} (o : outcome A) (f : A -> outcome B) : outcome B :=
  match o with Ok a => f a | Panic p => Panic p | Blocked b => Blocked b end.

(* nifa.ethernetInterface: nil, a usable handle, or a handle on which Close() was called *)
Inductive handle := NoHandle | Open | Closed.

Definition is_nil (h : handle) : bool := match h with NoHandle => true | _ => false end.

(* ---- Go primitives ---- *)
(* close(ch): the argument says whether ch is closed already; result: ch is closed *)
Definition close_chan (closed : bool) : outcome bool :=
  if closed then Panic CloseOfClosedChannel else Ok true.
(* h.Close(), h.GetMTU(), h.SendPacket(..) on an interface value *)
Definition handle_close (h : handle) : outcome handle :=
  match h with NoHandle => Panic NilHandle | _ => Ok Closed end.
Definition handle_mtu (h : handle) : outcome unit :=
  match h with NoHandle => Panic NilHandle | _ => Ok tt end.
Definition handle_send (h : handle) : outcome bool :=   (* true: the frame went out *)
  match h with NoHandle => Panic NilHandle | Open => Ok true | Closed => Ok false end.
(* devStatus.GetAddrs() / GetOperState() *)
Definition dev_deref (known : bool) : outcome unit :=
  if known then Ok tt else Panic NilDevStatus.

Record ifa := mkIfa {
  passive : bool;       (* cfg.Passive *)
  dev_known : bool;     (* devStatus != nil *)
  oper_up : bool;       (* devStatus.GetOperState() == IfOperUp *)
  initialized : bool;
  done_closed : bool;   (* nifa.done is closed *)
  eth : handle;
  handles : nat;        (* handles the ethernet factory created for this interface *)
  ticker_live : bool;   (* helloTicker exists and was not stopped *)
  sender : bool;        (* hello sender routine alive (parked in its select) *)
  receiver : bool;      (* receiver routine alive (parked in RecvPacket) *)
  subscribed : bool     (* the interface is registered with the device server (srv.ds.Subscribe in newNetIfa) *)
}.

Definition new_ifa (p : bool) : ifa := mkIfa p false false false false NoHandle 0 false false false true.

(* Routines that can observe their exit condition leave:
   the hello sender leaves when done is closed, stopping its ticker;
   the receiver is parked in RecvPacket until the handle is closed, then sees the closed done. *)
Definition settle (f : ifa) : ifa :=
  let snd_leaves := sender f && done_closed f in
  let rcv_leaves := receiver f && done_closed f && negb (match eth f with Open => true | _ => false end) in
  mkIfa (passive f) (dev_known f) (oper_up f) (initialized f) (done_closed f) (eth f) (handles f)
        (if snd_leaves then false else ticker_live f)
        (if snd_leaves then false else sender f)
        (if rcv_leaves then false else receiver f) (subscribed f).

(* netIfa._start (the ethernet factory and the multicast join succeed) *)
Definition start (f : ifa) : ifa :=
  if initialized f then f                     (* "already running" *)
  else if passive f then f                    (* only requests an LSP update *)
  else
    (* new handle; new hello ticker; go p2pHelloSender(); MCastJoin; go receiver(); initialized = true.
       A routine started while done is closed leaves at once (the sender stops the ticker). *)
    let alive := negb (done_closed f) in
    mkIfa (passive f) (dev_known f) (oper_up f) true (done_closed f) Open (S (handles f))
          alive alive alive (subscribed f).

(* netIfa._stop *)
Definition stop (f : ifa) : outcome ifa :=
  bind (close_chan (done_closed f)) (fun dc =>
  bind (if is_nil (eth f) then Ok (eth f) else handle_close (eth f)) (fun h =>
  let f2 := settle (mkIfa (passive f) (dev_known f) (oper_up f) (initialized f) dc h (handles f)
                          (ticker_live f) (sender f) (receiver f) (subscribed f)) in
  (* wg.Wait() *)
  if sender f2 then Blocked WaitHelloSender
  else if receiver f2 then Blocked WaitReceiver
  else
    (* initialized = false; done = make(chan struct{}) *)
    Ok (mkIfa (passive f2) (dev_known f2) (oper_up f2) false false (eth f2) (handles f2)
              (ticker_live f2) (sender f2) (receiver f2) (subscribed f2)))).

(* netIfa.DeviceUpdate with the new oper state (up or one of the six non-up states) *)
Definition device_update (f : ifa) (up : bool) : outcome ifa :=
  let old_up := dev_known f && oper_up f in
  let f1 := mkIfa (passive f) true up (initialized f) (done_closed f) (eth f) (handles f)
                  (ticker_live f) (sender f) (receiver f) (subscribed f) in
  if negb old_up && up then Ok (start f1)
  else if old_up && negb up then stop f1
  else Ok f1.

(* ---- events that arrive WHILE DeviceUpdate runs (it holds nifa.mu from entry to return) ----
   The hello ticker may fire, or a frame may arrive, after DeviceUpdate has taken the interface lock
   and before _stop has closed the done channel. Whether that is harmless depends on a lock
   discipline of the two routines, which is a parameter of the model:
     sender_locks   - the hello sender takes nifa.mu between receiving a tick and sending the hello
     receiver_locks - the receiver takes nifa.mu while processing a frame
     stop_unsubscribes - _stop unregisters the interface from the device server (HEAD: the
                      subscription made in newNetIfa lasts until RemoveInterface)
   On HEAD all are false (p2pHello and processPkt read devStatus without the lock). A routine that
   waits for the lock DeviceUpdate holds cannot see the closed done channel, so _stop's wg.Wait and
   that routine wait for each other. *)
Record discipline := mkDisc { sender_locks : bool; receiver_locks : bool; stop_unsubscribes : bool }.
Definition head_discipline : discipline := mkDisc false false false.

Inductive during := TickDuring | FrameDuring.

Definition is_open (h : handle) : bool := match h with Open => true | _ => false end.

(* DeviceUpdate with a hello tick / a frame arriving while it holds the lock; the number is the
   hellos written by the time everything has settled after the call *)
Definition device_update_during (d : discipline) (f : ifa) (up : bool) (w : during) : outcome (ifa * nat) :=
  let old_up := dev_known f && oper_up f in
  let ticked := match w with TickDuring => sender f && ticker_live f | FrameDuring => false end in
  let framed := match w with FrameDuring => receiver f && is_open (eth f) | TickDuring => false end in
  bind (if ticked then handle_send (eth f) else Ok false) (fun sent =>
  let n := if sent then 1 else 0 in
  if old_up && negb up then
    (* _stop runs under the lock: a routine stuck on the lock never leaves *)
    if ticked && sender_locks d then Blocked WaitHelloSender
    else if framed && receiver_locks d then Blocked WaitReceiver
    else bind (device_update f up) (fun f' => Ok (f', n))
  else
    (* no _stop: a routine that waited for the lock proceeds when DeviceUpdate returns *)
    bind (device_update f up) (fun f' => Ok (f', n))).

(* the device server (protocols/device.Server.notify) calls DeviceUpdate of the CURRENT subscribers
   only; d says whether _stop gives the subscription up *)
Definition deliver (d : discipline) (f : ifa) (up : bool) : outcome ifa :=
  if subscribed f then
    bind (device_update f up) (fun f' =>
      if stop_unsubscribes d && (dev_known f && oper_up f) && negb up
      then Ok (mkIfa (passive f') (dev_known f') (oper_up f') (initialized f') (done_closed f') (eth f')
                     (handles f') (ticker_live f') (sender f') (receiver f') false)
      else Ok f')
  else Ok f.

(* ---- the server: its interfaces and the periodic routines that look at them ---- *)
Definition srv := list ifa.

Definition init (kinds : list bool) : srv := map new_ifa kinds.

Fixpoint update_nth (d : discipline) (i : nat) (s : srv) (up : bool) : outcome srv :=
  match s, i with
  | [], _ => Ok []                                    (* no such interface: nobody subscribed *)
  | f :: r, O => bind (deliver d f up) (fun f' => Ok (f' :: r))
  | f :: r, S j => bind (update_nth d j r up) (fun r' => Ok (f :: r'))
  end.

Fixpoint update_nth_during (d : discipline) (i : nat) (s : srv) (up : bool) (w : during) : outcome (srv * nat) :=
  match s, i with
  | [], _ => Ok ([], 0%nat)
  | f :: r, O => if subscribed f then bind (device_update_during d f up w) (fun p => Ok (fst p :: r, snd p))
                 else Ok (f :: r, 0%nat)
  | f :: r, S j => bind (update_nth_during d j r up w) (fun p => Ok (f :: fst p, snd p))
  end.

(* generateLocalLSP: getAddressesIPv4 and extendedIPReachabilityTLV visit every interface and
   use its device status unless it is nil *)
Fixpoint regen (s : srv) : outcome unit :=
  match s with
  | [] => Ok tt
  | f :: r => bind (if dev_known f then dev_deref (dev_known f) else Ok tt) (fun _ => regen r)
  end.

(* sendPSNPss: every non-passive interface that has an ethernet handle is asked for its MTU *)
Fixpoint psnp_tick (s : srv) : outcome unit :=
  match s with
  | [] => Ok tt
  | f :: r =>
    bind (if passive f then Ok tt else if is_nil (eth f) then Ok tt else handle_mtu (eth f))
         (fun _ => psnp_tick r)
  end.

(* one tick of every hello ticker: a live sender on a live ticker sends one hello on its handle;
   result: number of hellos that went out per interface *)
Fixpoint hello_tick (s : srv) : outcome (list nat) :=
  match s with
  | [] => Ok []
  | f :: r =>
    bind (if sender f && ticker_live f then handle_send (eth f) else Ok false) (fun sent =>
    bind (hello_tick r) (fun l => Ok ((if sent then 1 else 0) :: l)))
  end.

(* what the next hello interval of server time does *)
Definition life (s : srv) : outcome (list nat) :=
  bind (regen s) (fun _ => bind (psnp_tick s) (fun _ => hello_tick s)).

Inductive event :=
| Dev (i : nat) (up : bool)
| DevDuring (i : nat) (up : bool) (w : during).   (* the update, with a tick / a frame arriving while it runs *)

(* one event followed by one hello interval of server life; outputs: hellos written while the
   update ran, and the hello counts of the following interval *)
Definition step (d : discipline) (s : srv) (e : event) : outcome (srv * (nat * list nat)) :=
  match e with
  | Dev i up => bind (update_nth d i s up) (fun s' => bind (life s') (fun hs => Ok (s', (0%nat, hs))))
  | DevDuring i up w =>
    bind (update_nth_during d i s up w) (fun p => bind (life (fst p)) (fun hs => Ok (fst p, (snd p, hs))))
  end.

Fixpoint run (d : discipline) (s : srv) (evs : list event) : outcome srv :=
  match evs with
  | [] => Ok s
  | e :: r => bind (step d s e) (fun p => run d (fst p) r)
  end.

(* ---- the observable capabilities the property talks about ---- *)
(* the interface sends a hello in the next hello interval *)
Definition sends_hellos (f : ifa) : bool :=
  sender f && ticker_live f && (match eth f with Open => true | _ => false end).
(* frames of a neighbor reach processPkt, i.e. an adjacency can form *)
Definition can_form_adjacency (f : ifa) : bool :=
  receiver f && (match eth f with Open => true | _ => false end).

(* specification side: the oper state the device server reported last for interface i *)
Fixpoint last_up (evs : list event) (i : nat) (dflt : bool) : bool :=
  match evs with
  | [] => dflt
  | Dev j up :: r => last_up r i (if Nat.eqb i j then up else dflt)
  | DevDuring j up _ :: r => last_up r i (if Nat.eqb i j then up else dflt)
  end.
