(* C02/C03: executable model of best-path selection in route/ (bio-rd).
     route/bgp_path.go : BGPPath.Select, BGPPath.ECMP, BGPPath.Compare, BGPPath.Equal
     route/static.go   : StaticPath.Select, ECMP, Compare, Equal
     route/path.go     : Path.Select, Path.ECMP, Path.Compare, Path.Equal (dispatch on Type)
     route/route.go    : PathSelection (= sort.Slice by Select, then updateEqualPathCount),
                         AddPath (append), RemovePath (remove first Compare-equal path)
     net/ip.go         : IP.Compare
   A Go *Path carries a Type and one pointer per protocol; dereferencing the nil pointer of the
   other protocol is a run-time panic, modelled as the explicit outcome [Panic].
   No proofs in this file. *)
From Coq Require Import List NArith ZArith Bool.
Import ListNotations.
Open Scope N_scope.

(* ---------- outcomes: a Go call returns a value or panics *)
Inductive res (A : Type) : Type := Ok (a : A) | Panic.
Arguments Ok {A} a.
Arguments Panic {A}.

(* ---------- net.IP: (higher, lower); isLegacy is not read by Compare *)
Record ip := mkip { ip_hi : N; ip_lo : N }.

(* net/ip.go: func (ip *IP) Compare(other *IP) int8 *)
Definition ip_compare (a b : ip) : Z :=
  if ip_hi b <? ip_hi a then 1%Z
  else if ip_hi a <? ip_hi b then (-1)%Z
  else if ip_lo b <? ip_lo a then 1%Z
  else if ip_lo a <? ip_lo b then (-1)%Z
  else 0%Z.

(* ---------- route.BGPPath: the attributes read by Select / ECMP / Compare / Equal.
   [clist]: nil pointer (attribute absent) vs. pointer to a (possibly empty) list.
   [pathid]: PathIdentifier. [other]: every remaining attribute that only Compare reads
   (AS_PATH contents, communities, large communities, aggregator, atomic aggregate, unknown
   attributes), abstracted to one number; equal AS_PATH contents imply equal ASPathLen.
   Select/ECMP do not read [other] - in particular not the AS_PATH contents (neighbour AS): the
   harness varies them (and OTC, BMPPostPolicy, LTime, HiddenReason, RedistributedFrom, which are
   not in the record at all), so any dependence of the implementation on them is a mismatch. *)
Record bgp_path := mkbgp {
  lp : N;            (* BGPPathA.LocalPref *)
  aslen : N;         (* ASPathLen *)
  origin : N;        (* BGPPathA.Origin *)
  med : N;           (* BGPPathA.MED *)
  ebgp : bool;       (* BGPPathA.EBGP *)
  bgpid : N;         (* BGPPathA.BGPIdentifier *)
  origid : N;        (* BGPPathA.OriginatorID, 0 = absent *)
  clist : option (list N);  (* ClusterList *)
  src : ip;          (* BGPPathA.Source (peer address) *)
  nh : ip;           (* BGPPathA.NextHop *)
  pathid : N;        (* PathIdentifier *)
  other : N
}.

Record static_path := mkstatic { snh : ip }.

Definition StaticPathType : N := 1.
Definition BGPPathType : N := 2.
Definition FIBPathType : N := 5.

(* route.Path: Type plus the protocol pointers (None = nil). The FIB pointer is not
   represented: every path of this model has FIBPath == nil. *)
Record path := mkpath { ptype : N; pstatic : option static_path; pbgp : option bgp_path }.

(* ---------- BGPPath.Select (route/bgp_path.go). 1: b is preferred, -1: c is preferred *)

(* identifier used in step f): ORIGINATOR_ID if present, else the BGP identifier *)
Definition eff_id (b : bgp_path) : N := if origid b =? 0 then bgpid b else origid b.

(* func (b *BGPPath) clusterListLen() int *)
Definition cl_len (b : bgp_path) : N :=
  match clist b with None => 0 | Some l => N.of_nat (length l) end.

Definition bgp_select (b c : bgp_path) : Z :=
  if lp c <? lp b then 1%Z
  else if lp b <? lp c then (-1)%Z
  (* a) *)
  else if aslen b <? aslen c then 1%Z
  else if aslen c <? aslen b then (-1)%Z
  (* b) *)
  else if origin b <? origin c then 1%Z
  else if origin c <? origin b then (-1)%Z
  (* c) *)
  else if med b <? med c then 1%Z
  else if med c <? med b then (-1)%Z
  (* d) *)
  else if ebgp c && negb (ebgp b) then (-1)%Z
  else if negb (ebgp c) && ebgp b then 1%Z
  (* f) + RFC 4456 9. *)
  else if eff_id c <? eff_id b then (-1)%Z
  else if eff_id b <? eff_id c then 1%Z
  else if cl_len c <? cl_len b then (-1)%Z
  else if cl_len b <? cl_len c then 1%Z
  (* g) *)
  else if (ip_compare (src c) (src b) =? -1)%Z then (-1)%Z
  else if (ip_compare (src c) (src b) =? 1)%Z then 1%Z
  else if (ip_compare (nh c) (nh b) =? -1)%Z then 1%Z
  else if (ip_compare (nh c) (nh b) =? 1)%Z then (-1)%Z
  else 0%Z.

(* func (b *BGPPath) ECMP(c *BGPPath) bool *)
Definition bgp_ecmp (b c : bgp_path) : bool :=
  (lp b =? lp c) && (aslen b =? aslen c) && (med b =? med c) && (origin b =? origin c).

Definition ip_eqb (a b : ip) : bool := (ip_compare a b =? 0)%Z.

Fixpoint list_eqb (l m : list N) : bool :=
  match l, m with
  | [], [] => true
  | x :: l', y :: m' => (x =? y) && list_eqb l' m'
  | _, _ => false
  end.

(* compareClusterList *)
Definition clist_eqb (a b : option (list N)) : bool :=
  match a, b with
  | None, None => true
  | Some l, Some m => list_eqb l m
  | _, _ => false
  end.

(* func (b *BGPPath) Compare(c *BGPPath) bool  (with BGPPathA.compare) *)
Definition bgp_compare (b c : bgp_path) : bool :=
  (pathid b =? pathid c) && ip_eqb (nh b) (nh c) && ip_eqb (src b) (src c)
  && (lp b =? lp c) && (med b =? med c) && (bgpid b =? bgpid c) && (origid b =? origid c)
  && Bool.eqb (ebgp b) (ebgp c) && (origin b =? origin c)
  && (aslen b =? aslen c) && (other b =? other c)
  && clist_eqb (clist b) (clist c).

(* func (b *BGPPath) Equal(c *BGPPath) bool *)
Definition bgp_equal (b c : bgp_path) : bool :=
  (pathid b =? pathid c) && (bgp_select b c =? 0)%Z.

(* ---------- StaticPath *)
Definition static_select (s t : static_path) : Z := ip_compare (snh s) (snh t).
Definition static_ecmp (s t : static_path) : bool := true.
Definition static_equal (s t : static_path) : bool := ip_eqb (snh s) (snh t).

(* ---------- Path: dispatch on Type (route/path.go); both receivers non-nil *)
Definition path_select (p q : path) : res Z :=
  if ptype q <? ptype p then Ok 1%Z
  else if ptype p <? ptype q then Ok (-1)%Z
  else if ptype p =? BGPPathType then
    match pbgp p, pbgp q with
    | Some b, Some c => Ok (bgp_select b c)
    | _, _ => Panic
    end
  else if ptype p =? StaticPathType then
    match pstatic p, pstatic q with
    | Some s, Some t => Ok (static_select s t)
    | _, _ => Panic
    end
  else if ptype p =? FIBPathType then Panic   (* FIBPath is nil in this model *)
  else Ok 0%Z.

Definition path_ecmp (p q : path) : res bool :=
  if negb (ptype p =? ptype q) then Ok false
  else if ptype p =? BGPPathType then
    match pbgp p, pbgp q with
    | Some b, Some c => Ok (bgp_ecmp b c)
    | _, _ => Panic
    end
  else if ptype p =? StaticPathType then Ok true   (* StaticPath.ECMP does not touch its receivers *)
  else Panic.                                       (* nil FIBPath / panic("Unknown path type") *)

Definition path_compare (p q : path) : res bool :=
  if negb (ptype p =? ptype q) then Ok false
  else if ptype p =? BGPPathType then
    match pbgp p, pbgp q with
    | Some b, Some c => Ok (bgp_compare b c)
    | _, _ => Panic
    end
  else if ptype p =? StaticPathType then
    match pstatic p, pstatic q with
    | Some s, Some t => Ok (static_equal s t)
    | _, _ => Ok false                               (* StaticPath.Equal checks for nil *)
    end
  else Ok false.

Definition path_equal (p q : path) : res bool :=
  if negb (ptype p =? ptype q) then Ok false
  else if ptype p =? BGPPathType then
    match pbgp p, pbgp q with
    | Some b, Some c => Ok (bgp_equal b c)
    | _, _ => Panic
    end
  else if ptype p =? StaticPathType then
    match pstatic p, pstatic q with
    | Some s, Some t => Ok (static_equal s t)
    | _, _ => Ok false
    end
  else match path_select p q with Ok z => Ok (z =? 0)%Z | Panic => Panic end.

(* ---------- Route *)

(* the `less` handed to sort.Slice in Route.PathSelection: paths[i].Select(paths[j]) == 1 *)
Definition less (p q : path) : res bool :=
  match path_select p q with Ok z => Ok (z =? 1)%Z | Panic => Panic end.

(* Route.updateEqualPathCount on the (already sorted) path list *)
Fixpoint ecmp_count (l : list path) : res N :=
  match l with
  | [] => Ok 0
  | a :: t =>
    match t with
    | [] => Ok 1
    | b :: _ =>
      match path_ecmp a b with
      | Panic => Panic
      | Ok false => Ok 1
      | Ok true => match ecmp_count t with Ok n => Ok (N.succ n) | Panic => Panic end
      end
    end
  end.

(* route.removePath: drop the first element that Compare()s equal *)
Fixpoint remove_path (l : list path) (p : path) : res (list path) :=
  match l with
  | [] => Ok []
  | x :: l' =>
    match path_compare x p with
    | Panic => Panic
    | Ok true => Ok l'
    | Ok false => match remove_path l' p with Ok r => Ok (x :: r) | Panic => Panic end
    end
  end.

(* One concrete sorting function that satisfies what sort.Slice guarantees (insertion sort by
   [less]); it makes the model executable. The theorems quantify over every admissible result. *)
Definition lessb (p q : path) : bool := match less p q with Ok true => true | _ => false end.

Fixpoint insert (p : path) (l : list path) : list path :=
  match l with
  | [] => [p]
  | x :: l' => if lessb p x then p :: l else x :: insert p l'
  end.

Definition isort (l : list path) : list path := fold_right insert [] l.

(* LocRIB.AddPath / RemovePath on the path list of one prefix, with [isort] as the sort *)
Inductive op := Add (p : path) | Remove (p : path).

Definition step (st : list path) (o : op) : res (list path) :=
  match o with
  | Add p => Ok (isort (st ++ [p]))
  | Remove p => match remove_path st p with Ok r => Ok (isort r) | Panic => Panic end
  end.
