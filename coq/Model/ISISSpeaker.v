(* Wire-level IS-IS speaker: composition of the separately verified component models
     Model/ISISCodec.v (C30: packet.Decode, the serializers, NewCSNPs/NewPSNPs, TLV constructors),
     Model/Adj.v       (C31: neighbor table of an interface, adjacency checker),
     Model/LSDB.v      (C32: link state database, SRM/SSN flags, sequence counter),
   with the interface life cycle of Model/Ifa.v (C33) entering as the per-interface flag "link up"
   (C33_hellos_after_up / C33_quiet_otherwise: an active interface sends hellos and receives frames
   exactly while its link is up - composed at specification level, see notes/ISISSpeaker.md).

   New here: the glue of protocols/isis/server between bytes and the abstract events -
     net_ifa_rx.go  processPkt / validatePkt / processP2PHello  (decode, dispatch, "neighbor up" filter)
     neighbor_manager.go validateP2PHello, neighbor.go p2pAdjTLVContainsSelf, neighborFromP2PHello
     hello_sender.go p2pHello (the hello we send, three-way TLV from the neighbor table)
     lsp.go generateLocalLSP (own LSP: TLVs from interfaces and Up adjacencies, length, checksum)
     lsdb.go sendLSPDUs / sendPSNPss / sendCSNPs (what goes on the wire: the stored PDU, NewPSNPs, NewCSNPs)
     net_ifa_tx.go sendPDU / getHeader.
   Values taken from decoded PDUs are reduced to the width of the Go field that holds them
   (uint8/16/32): the byte strings of the codec model are lists of N, real bytes are < 256.
   One speaker = one system with a list of active point-to-point interfaces, level 2 only, one IPv4
   prefix per interface. The periodic routines run in a fixed order within one [Tick] (= 1 s); the
   LSP updater serves a request at the end of the event that raised it. No proofs in this file. *)
From Coq Require Import List Bool NArith ZArith Arith.
Import ListNotations.
From BioVerif Require Model.ISISCodec Model.Adj Model.LSDB.
Open Scope N_scope.

(* ------------------------------------------------------------------ numbers <-> bytes *)

Definition be_val (l : list N) : N := fold_left (fun a x => a * 256 + x mod 256) l 0.

Fixpoint be_bytes (k : nat) (v : N) : list N :=
  match k with
  | O => []
  | S k' => be_bytes k' (v / 256) ++ [v mod 256]
  end.

Definition u16 (x : N) : N := x mod 65536.
Definition u32 (x : N) : N := x mod 4294967296.

(* LSP id: 8 bytes on the wire, (system id, pseudonode id, LSP number) in the database *)
Definition id_of_bytes (b : list N) : LSDB.lspid :=
  LSDB.mkId (be_val (firstn 6 b)) (nth 6 b 0 mod 256) (nth 7 b 0 mod 256).
Definition id_bytes (k : LSDB.lspid) : list N :=
  be_bytes 6 (LSDB.sys k) ++ [LSDB.pn k mod 256; LSDB.num k mod 256].

Definition llc : list N := [254; 254; 3].

(* net_ifa_tx.go getHeader / lengthIndicatorByPDUType *)
Definition hdr (ty li : N) : ISISCodec.header := ISISCodec.mkHeader 131 li 1 0 ty 1 0.
Definition hdr_hello : ISISCodec.header := hdr 17 20.
Definition hdr_lsp : ISISCodec.header := hdr 20 27.
Definition hdr_csnp : ISISCodec.header := hdr 25 33.
Definition hdr_psnp : ISISCodec.header := hdr 27 17.

(* ------------------------------------------------------------------ state *)

(* what neighborFromP2PHello keeps of the first hello besides the adjacency state *)
Record nbrinfo := mkInfo {
  ni_sys : list N;       (* n.sysID *)
  ni_ecid : N;           (* n.extendedLocalCircuitID *)
  ni_addrs : list N      (* n.ipAddresses *)
}.

Record sif := mkSif {
  if_index : N;                       (* devStatus.GetIndex() *)
  if_addr : N;                        (* the interface's IPv4 address ... *)
  if_plen : N;                        (* ... and prefix length *)
  if_up : bool;                       (* link up: hello sender and receiver run (C33) *)
  if_nbrs : Adj.table;                  (* level 2 neighbors, keyed by source MAC *)
  if_info : list (N * nbrinfo)
}.

Record spk := mkSpk {
  sp_sys : list N;                    (* own system id, 6 bytes *)
  sp_area : list N;                   (* own area id *)
  sp_host : list N;                   (* host name *)
  sp_hold : N;                        (* holding timer announced in hellos *)
  sp_hello_int : N;                   (* hello interval, seconds *)
  sp_metric : N;
  sp_ifs : list sif;
  sp_db : LSDB.srv;                      (* database, flags, sequence counter, update request *)
  sp_pdus : list (LSDB.lspid * ISISCodec.lsp);   (* the PDU behind each database entry (what is flooded) *)
  sp_now : N
}.

Fixpoint info_lookup (k : N) (t : list (N * nbrinfo)) : option nbrinfo :=
  match t with
  | [] => None
  | (k', v) :: r => if N.eqb k' k then Some v else info_lookup k r
  end.

Fixpoint pdu_lookup (k : LSDB.lspid) (t : list (LSDB.lspid * ISISCodec.lsp)) : option ISISCodec.lsp :=
  match t with
  | [] => None
  | (k', v) :: r => if LSDB.id_eqb k' k then Some v else pdu_lookup k r
  end.

Definition is_empty {X : Type} (l : list X) : bool := match l with [] => true | _ => false end.

(* the LSDB model's view of the interfaces: all active; "has a neighbor" from the neighbor tables *)
Definition db_ifs (ifs : list sif) : list LSDB.iface :=
  map (fun f => LSDB.mkIf false (negb (is_empty (if_nbrs f)))) ifs.

Definition sync_db (ifs : list sif) (d : LSDB.srv) : LSDB.srv :=
  LSDB.mkS (db_ifs ifs) (LSDB.own d) (LSDB.db d) (LSDB.counter d) (LSDB.pending d).

Definition request (d : LSDB.srv) (req : bool) : LSDB.srv :=
  LSDB.mkS (LSDB.ifs d) (LSDB.own d) (LSDB.db d) (LSDB.counter d) (LSDB.pending d || req).

Fixpoint set_nth {X : Type} (i : nat) (x : X) (l : list X) : list X :=
  match l, i with
  | [], _ => []
  | _ :: r, O => x :: r
  | y :: r, S j => y :: set_nth j x r
  end.

(* ------------------------------------------------------------------ received hello -> verdict (neighbor_manager.go) *)

Fixpoint first_tlv (ty : N) (ts : list ISISCodec.tlv) : option ISISCodec.tlv :=
  match ts with
  | [] => None
  | t :: r => if N.eqb (ISISCodec.tlv_type t) ty then Some t else first_tlv ty r
  end.

(* bnet.Prefix.Contains for a /32 needle *)
Definition pfx_contains (base plen a : N) : bool :=
  let sh := 2 ^ (32 - plen) in (plen <=? 32) && (a / sh =? base / sh).

(* validateP2PHello: area TLV with at least one area, three-way TLV, protocols supported with IPv4
   and IPv6, IP interface addresses TLV with an address inside the interface's subnet *)
Definition hello_valid (f : sif) (h : ISISCodec.hello) : bool :=
  match first_tlv 1 (ISISCodec.hl_tlvs h), first_tlv 240 (ISISCodec.hl_tlvs h),
        first_tlv 129 (ISISCodec.hl_tlvs h), first_tlv 132 (ISISCodec.hl_tlvs h) with
  | Some (ISISCodec.TArea _ _ areas), Some (ISISCodec.TP2PAdj _ _ _ _ _ _), Some (ISISCodec.TProto _ _ ids), Some (ISISCodec.TIPIf _ _ addrs) =>
    negb (is_empty areas) &&
    existsb (N.eqb 204) ids && existsb (N.eqb 142) ids &&
    existsb (pfx_contains (if_addr f) (if_plen f)) addrs
  | _, _, _, _ => false
  end.

(* neighbor.p2pAdjTLVContainsSelf *)
Definition lists_me (s : spk) (f : sif) (h : ISISCodec.hello) : bool :=
  match first_tlv 240 (ISISCodec.hl_tlvs h) with
  | Some (ISISCodec.TP2PAdj _ _ _ _ nsys necid) =>
    (be_val nsys =? be_val (sp_sys s)) && (N.of_nat (length nsys) =? 6) && (u32 necid =? u32 (if_index f))
  | _ => false
  end.

(* netIfa.processP2PHello: only circuit types L2 (2) and L1L2 (3) reach the level 2 neighbor manager *)
Definition hello_verdict (s : spk) (f : sif) (h : ISISCodec.hello) : Adj.verdict :=
  if negb ((ISISCodec.hl_ct h =? 2) || (ISISCodec.hl_ct h =? 3)) then Adj.Ignored
  else if negb (hello_valid f h) then Adj.Rejected
  else if lists_me s f h then Adj.Lists else Adj.NotLists.

(* neighborFromP2PHello: what is remembered of a neighbor's first hello *)
Definition info_of_hello (h : ISISCodec.hello) : nbrinfo :=
  mkInfo (ISISCodec.hl_sys h)
         (match first_tlv 240 (ISISCodec.hl_tlvs h) with Some (ISISCodec.TP2PAdj _ _ _ ecid _ _) => u32 ecid | _ => 0 end)
         (match first_tlv 132 (ISISCodec.hl_tlvs h) with Some (ISISCodec.TIPIf _ _ addrs) => map u32 addrs | _ => [] end).

(* the neighbor table step of Model/Adj.v on this interface's table at the speaker's clock *)
Definition adj_hello (now : N) (t : Adj.table) (k hold : N) (v : Adj.verdict) : Adj.table * bool :=
  let a := Adj.step (Adj.mkSrv now t false []) (Adj.Hello k hold v) in (Adj.nbrs a, Adj.pending a).

Definition adj_check (now : N) (t : Adj.table) : Adj.table * bool := Adj.check_all now t.

(* ------------------------------------------------------------------ own LSP (lsp.go generateLocalLSP) *)

Definition up_nbrs (f : sif) : list (N * nbrinfo) :=
  flat_map (fun kv => if Adj.is_up (Adj.state (snd kv))
                      then match info_lookup (fst kv) (if_info f) with Some i => [(fst kv, i)] | None => [] end
                      else []) (if_nbrs f).

(* neighbor.extendedISReachabilityNeighbor *)
Definition extis_of (s : spk) (f : sif) (i : nbrinfo) : ISISCodec.extisnbr :=
  ISISCodec.new_extis_nbr (ni_sys i ++ [0]) (sp_metric s)
    ([ISISCodec.SIPv4 6 4 (if_addr f)] ++ map (fun a => ISISCodec.SIPv4 8 4 a) (ni_addrs i) ++
     [ISISCodec.SLinkLR 4 8 (u32 (if_index f)) (ni_ecid i)]).

Definition base_addr (a plen : N) : N := let sh := 2 ^ (32 - plen) in a / sh * sh.

Definition own_lsp_tlvs (s : spk) : list ISISCodec.tlv :=
  [ ISISCodec.new_area_tlv [sp_area s];
    ISISCodec.new_proto_tlv [204; 142];
    ISISCodec.new_ipif_tlv (map if_addr (sp_ifs s));
    ISISCodec.new_extip_tlv (map (fun f => (sp_metric s, if_plen f, base_addr (if_addr f) (if_plen f)))
                         (filter if_up (sp_ifs s)));
    ISISCodec.new_extis_tlv (flat_map (fun f => map (fun ki => extis_of s f (snd ki)) (up_nbrs f)) (sp_ifs s));
    ISISCodec.new_dynhost_tlv (sp_host s) ].

Definition own_lsp (s : spk) (sq : N) : ISISCodec.lsp :=
  ISISCodec.lsp_set_checksum (ISISCodec.lsp_update_length
    (ISISCodec.mkLsp 0 LSDB.default_lifetime (id_bytes (LSDB.local_id (sp_db s))) sq 0 0 (own_lsp_tlvs s))).

Fixpoint pdu_store (k : LSDB.lspid) (v : ISISCodec.lsp) (t : list (LSDB.lspid * ISISCodec.lsp)) : list (LSDB.lspid * ISISCodec.lsp) :=
  match t with
  | [] => [(k, v)]
  | (k', v') :: r => if LSDB.id_eqb k' k then (k', v) :: r else (k', v') :: pdu_store k v r
  end.

(* l2LSPUpdater: serve a queued request: new sequence number, new content, SRM on all interfaces *)
Definition service (s : spk) : spk :=
  let d := sync_db (sp_ifs s) (sp_db s) in
  if LSDB.pending d then
    let d' := LSDB.service d in
    mkSpk (sp_sys s) (sp_area s) (sp_host s) (sp_hold s) (sp_hello_int s) (sp_metric s) (sp_ifs s) d'
          (pdu_store (LSDB.local_id d) (own_lsp s (LSDB.counter d')) (sp_pdus s)) (sp_now s)
  else s.

Definition with_ifs_db (s : spk) (ifs : list sif) (d : LSDB.srv) : spk :=
  mkSpk (sp_sys s) (sp_area s) (sp_host s) (sp_hold s) (sp_hello_int s) (sp_metric s) ifs d (sp_pdus s) (sp_now s).

(* ------------------------------------------------------------------ received PDUs (net_ifa_rx.go processPkt) *)

Definition tlv_entries (t : ISISCodec.tlv) : list ISISCodec.lspentry :=
  match t with ISISCodec.TEntries _ _ es => es | _ => [] end.

(* GetLSPEntries: the entries of all LSP entries TLVs, as (id, sequence number, lifetime) *)
Definition snp_entries_of (ts : list ISISCodec.tlv) : list (LSDB.lspid * N * N) :=
  map (fun e => (id_of_bytes (ISISCodec.le_id e), u32 (ISISCodec.le_seq e), u16 (ISISCodec.le_life e)))
      (flat_map tlv_entries (filter (fun t => N.eqb (ISISCodec.tlv_type t) 9) ts)).

(* the checksum a "requested" (sequence number 0) entry is created with: a header-only PDU *)
Definition placeholder_pdu (e : ISISCodec.lspentry) : ISISCodec.lsp :=
  ISISCodec.mkLsp 0 (u16 (ISISCodec.le_life e)) (id_bytes (id_of_bytes (ISISCodec.le_id e))) 0 (u16 (ISISCodec.le_csum e)) 0 [].

(* pdus of entries an SNP creates (processCSNPLSPEntryUnknown), in processing order *)
Fixpoint snp_new_pdus (d : LSDB.srv) (i : nat) (es : list ISISCodec.lspentry) (p : list (LSDB.lspid * ISISCodec.lsp))
  : list (LSDB.lspid * ISISCodec.lsp) :=
  match es with
  | [] => p
  | e :: r =>
    let k := id_of_bytes (ISISCodec.le_id e) in
    let p' := match LSDB.lookup k (LSDB.db d) with None => pdu_store k (placeholder_pdu e) p | Some _ => p end in
    snp_new_pdus (LSDB.snp_entry d i (k, u32 (ISISCodec.le_seq e), u16 (ISISCodec.le_life e))) i r p'
  end.

(* validatePkt: level 2 LSPs and SNPs are only accepted from a neighbor whose adjacency is Up *)
Definition nbr_up (f : sif) (src : N) : bool :=
  match Adj.lookup src (if_nbrs f) with Some nb => Adj.is_up (Adj.state nb) | None => false end.

Definition norm_recv_lsp (x : ISISCodec.lsp) : ISISCodec.lsp :=
  ISISCodec.mkLsp (u16 (ISISCodec.ls_len x)) (u16 (ISISCodec.ls_life x)) (id_bytes (id_of_bytes (ISISCodec.ls_id x))) (u32 (ISISCodec.ls_seq x))
          (u16 (ISISCodec.ls_csum x)) (ISISCodec.ls_tb x mod 256) (ISISCodec.ls_tlvs x).

Definition recv_body (s : spk) (i : nat) (f : sif) (src : N) (b : ISISCodec.body) : spk :=
  match b with
  | ISISCodec.BHello h =>
    let v := hello_verdict s f h in
    let '(t', req) := adj_hello (sp_now s) (if_nbrs f) src (u16 (ISISCodec.hl_hold h)) v in
    let created := match v, Adj.lookup src (if_nbrs f) with
                   | Adj.Lists, None | Adj.NotLists, None => true
                   | _, _ => false
                   end in
    let info' := if created then (src, info_of_hello h) :: if_info f else if_info f in
    let f' := mkSif (if_index f) (if_addr f) (if_plen f) (if_up f) t' info' in
    with_ifs_db s (set_nth i f' (sp_ifs s)) (request (sp_db s) req)
  | ISISCodec.BLsp x =>
    if nbr_up f src then
      let d := sync_db (sp_ifs s) (sp_db s) in
      let k := id_of_bytes (ISISCodec.ls_id x) in
      let sq := u32 (ISISCodec.ls_seq x) in
      let newer := match LSDB.lookup k (LSDB.db d) with None => true | Some e => LSDB.seq e <? sq end in
      let installs := newer && negb (LSDB.id_eqb k (LSDB.local_id d)) in
      let d' := LSDB.recv_lsp d i k sq (u16 (ISISCodec.ls_life x)) in
      mkSpk (sp_sys s) (sp_area s) (sp_host s) (sp_hold s) (sp_hello_int s) (sp_metric s) (sp_ifs s) d'
            (if installs then pdu_store k (norm_recv_lsp x) (sp_pdus s) else sp_pdus s) (sp_now s)
    else s
  | ISISCodec.BCsnp c =>
    if nbr_up f src then
      let d := sync_db (sp_ifs s) (sp_db s) in
      let raw := flat_map tlv_entries (filter (fun t => N.eqb (ISISCodec.tlv_type t) 9) (ISISCodec.cs_tlvs c)) in
      let d' := LSDB.recv_csnp d i (id_of_bytes (ISISCodec.cs_start c)) (id_of_bytes (ISISCodec.cs_end c)) (snp_entries_of (ISISCodec.cs_tlvs c)) in
      mkSpk (sp_sys s) (sp_area s) (sp_host s) (sp_hold s) (sp_hello_int s) (sp_metric s) (sp_ifs s) d'
            (snp_new_pdus d i raw (sp_pdus s)) (sp_now s)
    else s
  | ISISCodec.BPsnp p =>
    if nbr_up f src then
      let d := sync_db (sp_ifs s) (sp_db s) in
      let raw := flat_map tlv_entries (filter (fun t => N.eqb (ISISCodec.tlv_type t) 9) (ISISCodec.ps_tlvs p)) in
      let d' := LSDB.recv_psnp d i (snp_entries_of (ISISCodec.ps_tlvs p)) in
      mkSpk (sp_sys s) (sp_area s) (sp_host s) (sp_hold s) (sp_hello_int s) (sp_metric s) (sp_ifs s) d'
            (snp_new_pdus d i raw (sp_pdus s)) (sp_now s)
    else s
  | ISISCodec.BNone => s       (* "Unknown PDU type": an error is returned, nothing changes *)
  end.

(* a frame arrives on interface i from MAC address src *)
Definition recv_pdu (s : spk) (i : nat) (src : N) (bytes : list N) : spk :=
  match nth_error (sp_ifs s) i with
  | Some f =>
    if if_up f then
      match ISISCodec.decode bytes with
      | ISISCodec.Ok p => service (recv_body s i f src (ISISCodec.p_body p))
      | _ => s                      (* "Decode failed": logged, nothing changes *)
      end
    else s                          (* no receiver runs on a link that is down *)
  | None => s
  end.

(* ------------------------------------------------------------------ what the speaker sends *)

(* hello_sender.go getP2PNeighbor: the neighbor of a point-to-point interface (none if there are several) *)
Definition p2p_neighbor (f : sif) : option (N * Adj.nbr) :=
  match if_nbrs f with [kv] => Some kv | _ => None end.

Definition adj_state_code (st : Adj.adj_state) : N :=
  match st with Adj.Up => 0 | Adj.Init => 1 | Adj.Down => 2 end.

(* hello_sender.go p2pHello: the three-way TLV names the neighbor unless there is none or it is Down *)
Definition threeway_tlv (f : sif) : ISISCodec.tlv :=
  match p2p_neighbor f with
  | Some (k, nb) =>
    match Adj.state nb, info_lookup k (if_info f) with
    | Adj.Down, _ | _, None => ISISCodec.new_p2padj_tlv 2 (u32 (if_index f))
    | st, Some i => ISISCodec.TP2PAdj 240 15 (adj_state_code st) (u32 (if_index f)) (ni_sys i) (ni_ecid i)
    end
  | None => ISISCodec.new_p2padj_tlv 2 (u32 (if_index f))
  end.

Definition hello_of (s : spk) (f : sif) : ISISCodec.hello :=
  ISISCodec.mkHello 2 (sp_sys s) (u16 (sp_hold s)) 20 1
    [threeway_tlv f; ISISCodec.new_proto_tlv [204; 142]; ISISCodec.new_ipif_tlv [if_addr f]; ISISCodec.new_area_tlv [sp_area s]].

Definition hello_bytes (s : spk) (f : sif) : list N :=
  ISISCodec.enc_packet llc (ISISCodec.mkPacket hdr_hello (ISISCodec.BHello (hello_of s f))).

Definition out := (nat * list N)%type.     (* interface, frame *)

Fixpoint indexed {X : Type} (i : nat) (l : list X) : list (nat * X) :=
  match l with [] => [] | x :: r => (i, x) :: indexed (S i) r end.

Definition hellos_out (s : spk) : list out :=
  flat_map (fun p => if if_up (snd p) then [(fst p, hello_bytes s (snd p))] else []) (indexed 0 (sp_ifs s)).

(* lspdu.ToLSPEntry of a database entry: remaining lifetime and sequence number from the entry
   (the lifetime is decremented in place), id and checksum from the stored PDU *)
Definition entry_of (s : spk) (kv : LSDB.lspid * LSDB.entry) : ISISCodec.lspentry :=
  ISISCodec.mkEntry (u16 (LSDB.life (snd kv))) (id_bytes (fst kv)) (u32 (LSDB.seq (snd kv)))
            (match pdu_lookup (fst kv) (sp_pdus s) with Some x => u16 (ISISCodec.ls_csum x) | None => 0 end).

Definition src_id (s : spk) : list N := sp_sys s ++ [0].
Definition mtu : Z := 1500%Z.

(* lsdb.go sendPSNPss: per interface NewPSNPs over the entries whose SSN flag is set there *)
Definition psnps_for (s : spk) (i : nat) : ISISCodec.res (list ISISCodec.psnp) :=
  ISISCodec.new_psnps (src_id s) (map (entry_of s) (filter (fun kv => LSDB.mem i (LSDB.ssn (snd kv))) (LSDB.db (sp_db s)))) mtu.

Definition psnp_bytes (p : ISISCodec.psnp) : list N := ISISCodec.enc_packet llc (ISISCodec.mkPacket hdr_psnp (ISISCodec.BPsnp p)).
Definition csnp_bytes (c : ISISCodec.csnp) : list N := ISISCodec.enc_packet llc (ISISCodec.mkPacket hdr_csnp (ISISCodec.BCsnp c)).
Definition lsp_bytes (x : ISISCodec.lsp) : list N := ISISCodec.enc_packet llc (ISISCodec.mkPacket hdr_lsp (ISISCodec.BLsp x)).

Definition psnps_out (s : spk) : list out :=
  flat_map (fun p =>
    if if_up (snd p) then            (* on a link that is down the handle is closed (or was never opened) *)
      match psnps_for s (fst p) with
      | ISISCodec.Ok ps => map (fun x => (fst p, psnp_bytes x)) ps
      | _ => []
      end
    else []) (indexed 0 (sp_ifs s)).

(* lsdb.go sendCSNPs: NewCSNPs over the whole database on interfaces with an Up neighbor *)
Definition csnps_for (s : spk) : ISISCodec.res (list ISISCodec.csnp) :=
  ISISCodec.new_csnps (src_id s) (map (entry_of s) (LSDB.db (sp_db s))) mtu.

Definition has_up_nbr (f : sif) : bool := existsb (fun kv => Adj.is_up (Adj.state (snd kv))) (if_nbrs f).

Definition csnps_out (s : spk) : list out :=
  flat_map (fun p =>
    if has_up_nbr (snd p) then
      match csnps_for s with
      | ISISCodec.Ok cs => map (fun x => (fst p, csnp_bytes x)) cs
      | _ => []
      end
    else []) (indexed 0 (sp_ifs s)).

(* lsdb.go sendLSPDUs: every entry on every interface whose SRM flag is set: the stored PDU with the
   current remaining lifetime *)
Definition flooded (s : spk) (kv : LSDB.lspid * LSDB.entry) : option ISISCodec.lsp :=
  match pdu_lookup (fst kv) (sp_pdus s) with
  | Some x => Some (ISISCodec.mkLsp (ISISCodec.ls_len x) (u16 (LSDB.life (snd kv))) (ISISCodec.ls_id x) (ISISCodec.ls_seq x) (ISISCodec.ls_csum x) (ISISCodec.ls_tb x) (ISISCodec.ls_tlvs x))
  | None => None
  end.

Definition link_is_up (s : spk) (i : nat) : bool :=
  match nth_error (sp_ifs s) i with Some f => if_up f | None => false end.

Definition lsps_out (s : spk) : list out :=
  flat_map (fun kv =>
    flat_map (fun i => if link_is_up s i
                       then match flooded s kv with Some x => [(i, lsp_bytes x)] | None => [] end
                       else [])
             (LSDB.srm (snd kv))) (LSDB.db (sp_db s)).

(* ------------------------------------------------------------------ time and links *)

(* one second: adjacency checkers (the LSP updater serves their request at once), lifetime decrement
   (the updater serves a refresh request), then - when due - LSP sender, PSNP sender, hello
   senders, CSNP sender *)
Definition check_if (now : N) (f : sif) : sif * bool :=
  let '(t', req) := adj_check now (if_nbrs f) in
  (mkSif (if_index f) (if_addr f) (if_plen f) (if_up f) t' (if_info f), req).

Definition tick (s : spk) : spk * list out :=
  let now := sp_now s + 1 in
  let cs := map (check_if now) (sp_ifs s) in
  let ifs' := map fst cs in
  let req := existsb snd cs in
  let s0 := service (mkSpk (sp_sys s) (sp_area s) (sp_host s) (sp_hold s) (sp_hello_int s) (sp_metric s)
                           ifs' (request (sync_db ifs' (sp_db s)) req) (sp_pdus s) now) in
  let s1 := service (with_ifs_db s0 (sp_ifs s0) (LSDB.tick (sync_db (sp_ifs s0) (sp_db s0)))) in
  let due5 := now mod 5 =? 0 in
  let o_lsp := if due5 then lsps_out s1 else [] in
  let o_psnp := if due5 then psnps_out s1 else [] in
  let s2 := if due5 then with_ifs_db s1 (sp_ifs s1) (LSDB.clear_all_ssn (sp_db s1)) else s1 in
  let o_hello := if (0 <? sp_hello_int s) && (now mod sp_hello_int s =? 0) then hellos_out s2 else [] in
  let o_csnp := if now mod 10 =? 0 then csnps_out s2 else [] in
  (s2, o_lsp ++ o_psnp ++ o_hello ++ o_csnp).

(* netIfa._stop: all neighbors Down, hello sender and receiver stop, an LSP update is requested *)
Definition link_down (s : spk) (i : nat) : spk :=
  match nth_error (sp_ifs s) i with
  | Some f =>
    if if_up f then
      let t' := map (fun kv => (fst kv, Adj.mkNbr Adj.Down (Adj.timeout (snd kv)) (sp_now s))) (if_nbrs f) in
      let f' := mkSif (if_index f) (if_addr f) (if_plen f) false t' (if_info f) in
      service (with_ifs_db s (set_nth i f' (sp_ifs s)) (request (sp_db s) true))
    else s
  | None => s
  end.

(* netIfa._start *)
Definition link_up (s : spk) (i : nat) : spk :=
  match nth_error (sp_ifs s) i with
  | Some f =>
    if if_up f then s else
      let f' := mkSif (if_index f) (if_addr f) (if_plen f) true (if_nbrs f) (if_info f) in
      service (with_ifs_db s (set_nth i f' (sp_ifs s)) (request (sp_db s) true))
  | None => s
  end.

Inductive event :=
| RecvPDU (i : nat) (src : N) (bytes : list N)
| Tick
| LinkUp (i : nat)
| LinkDown (i : nat).

Definition step (s : spk) (e : event) : spk * list out :=
  match e with
  | RecvPDU i src b => (recv_pdu s i src b, [])
  | Tick => tick s
  | LinkUp i => (link_up s i, [])
  | LinkDown i => (link_down s i, [])
  end.

(* a freshly started speaker, as cmd/bio-rd sets it up: Start() generates the first LSP (no interface
   yet), then the interfaces are configured and the device server reports them, links down *)
Definition init (sys area host : list N) (hold hello_int metric : N) (ifs : list (N * N * N)) : spk :=
  let sifs := map (fun c => match c with (idx, addr, plen) => mkSif idx addr plen false [] [] end) ifs in
  let s0 := service (mkSpk sys area host hold hello_int metric []
                           (LSDB.mkS [] (be_val sys) [] 0 true) [] 0) in
  with_ifs_db s0 sifs (sync_db sifs (sp_db s0)).
