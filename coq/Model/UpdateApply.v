(* C20: executable model of the UPDATE application code of protocols/bgp/server/fsm_address_family.go
   (processUpdate, multiProtocolUpdates, multiProtocolUpdate, multiProtocolWithdraw, withdraws,
   updates, processAttributes, getMPReachAndUnreachNLRIs) on top of the Adj-RIB-In model.
   The input is the decoded message (packet.BGPUpdate).  Go type assertions on attribute values
   (pa.Value.(uint32) ...) panic when the dynamic type is wrong: modelled by the [typed] flag of an
   attribute and the explicit outcome [Panic].  No proofs in this file. *)
From Coq Require Import List NArith Bool.
Import ListNotations.
From BioVerif Require Import Model.AdjRIBIn.
Open Scope N_scope.

(* packet.NLRI: prefix + path identifier (0 without add-path) *)
Record nlri := mkNLRI { n_pfx : pfx; n_id : N }.

(* packet.MultiProtocolReachNLRI / MultiProtocolUnreachNLRI *)
Record mp_reach := mkReach { mr_afi : N; mr_safi : N; mr_nh : N; mr_nlri : list nlri }.
Record mp_unreach := mkUnreach { mu_afi : N; mu_safi : N; mu_nlri : list nlri }.

(* packet.PathAttribute; typed = the dynamic type of Value is the one the code asserts for the type code *)
Inductive attr :=
| ALocalPref (typed : bool) (v : N)
| AMed (typed : bool) (v : N)
| ANextHop (typed : bool) (v : N)
| AASPath (typed : bool) (l : list N)
| AOriginator (typed : bool) (v : N)
| AClusterList (typed : bool) (l : list N)
| AReach (typed : bool) (r : mp_reach)
| AUnreach (typed : bool) (u : mp_unreach)
| AIgnored (typed : bool)     (* ORIGIN, AGGREGATOR, communities, unknown transitive: asserted, not in the model's path *)
| ASkipped.                   (* ATOMIC_AGGREGATE, unknown non-transitive: no assertion *)

Record update := mkUpdate {
  u_withdrawn : list nlri;    (* WithdrawnRoutes *)
  u_attrs : list attr;        (* PathAttributes, in message order *)
  u_nlri : list nlri          (* NLRI *)
}.

Inductive outcome := Done (s : st) | Panic.

Definition attr_typed (a : attr) : bool :=
  match a with
  | ALocalPref t _ | AMed t _ | ANextHop t _ | AASPath t _ | AOriginator t _ | AClusterList t _
  | AReach t _ | AUnreach t _ | AIgnored t => t
  | ASkipped => true
  end.

(* newRoutePath: nothing set *)
Definition fresh_path : path := mkPath 0 0 0 0 [] 0 [] 0 0.

Definition set_origid (q : path) (v : N) : path :=
  mkPath (pid q) (lpref q) (med q) (nhop q) (aspath q) v (clist q) (otc q) (hid q).
Definition set_clist (q : path) (v : list N) : path :=
  mkPath (pid q) (lpref q) (med q) (nhop q) (aspath q) (origid q) v (otc q) (hid q).

(* processAttributes: one switch per attribute, in order *)
Definition process_attr (q : path) (a : attr) : path :=
  match a with
  | ALocalPref _ v => set_lpref q v
  | AMed _ v => set_med q v
  | ANextHop _ v => set_nhop q v
  | AASPath _ l => set_aspath q l
  | AOriginator _ v => set_origid q v
  | AClusterList _ l => set_clist q l
  | _ => q
  end.
Definition process_attrs (l : list attr) : path := fold_left process_attr l fresh_path.

(* getMPReachAndUnreachNLRIs: the last attribute of each kind wins *)
Definition last_reach (l : list attr) : option mp_reach :=
  fold_left (fun acc a => match a with AReach _ r => Some r | _ => acc end) l None.
Definition last_unreach (l : list attr) : option mp_unreach :=
  fold_left (fun acc a => match a with AUnreach _ u => Some u | _ => acc end) l None.

(* multiProtocolUpdate *)
Definition mp_update (afi safi : N) (base : path) (r : mp_reach) (s : st) : st :=
  if negb ((afi =? mr_afi r) && (safi =? mr_safi r)) then s else
  fold_left (fun acc n => add_path (n_pfx n) (set_pid (set_nhop base (mr_nh r)) (n_id n)) acc) (mr_nlri r) s.

(* multiProtocolWithdraw *)
Definition mp_withdraw (afi safi : N) (u : mp_unreach) (s : st) : st :=
  if negb ((afi =? mu_afi u) && (safi =? mu_safi u)) then s else
  fold_left (fun acc n => remove_path (n_pfx n) (Some (n_id n)) acc) (mu_nlri u) s.

(* processUpdate of the address family (afi, safi); AFI 1 = IPv4, 2 = IPv6; SAFI 1 = unicast *)
Definition process_update (afi safi : N) (u : update) (s : st) : outcome :=
  if negb (safi =? 1) then Done s else
  if negb (forallb attr_typed (u_attrs u)) then Panic else
  let base := process_attrs (u_attrs u) in
  let s1 := match last_reach (u_attrs u) with Some r => mp_update afi safi base r s | None => s end in
  let s2 := match last_unreach (u_attrs u) with Some w => mp_withdraw afi safi w s1 | None => s1 end in
  if afi =? 1 then
    let s3 := fold_left (fun acc n => remove_path (n_pfx n) (Some (n_id n)) acc) (u_withdrawn u) s2 in
    Done (fold_left (fun acc n => add_path (n_pfx n) (set_pid base (n_id n)) acc) (u_nlri u) s3)
  else Done s2.

Definition process_updates (afi safi : N) (us : list update) (s : st) : outcome :=
  fold_left (fun o u => match o with Done s' => process_update afi safi u s' | Panic => Panic end) us (Done s).
