(* C13: the Adj-RIB-Out over an object store.

   Paths are objects: a path object (route.Path + its BGPPath) refers to a BGPPathA block; blocks are
   shared between path objects through the deduplication cache (route/bgp_path_cache.go: bgpC, keyed by
   block content).  Tables hold object ids.  Every step of the export side is either
     alloc_copy   Path.Copy (new path object, new block with the same content)
     write_full   an in-place assignment to a path object and to ITS block (checkPropagateUpdate*,
                  redistributePath, the filter actions on their working copy)
     write_obj    an in-place assignment to a field of the path object only (PathIdentifier)
     dedup        BGPPath.Dedup: point the object at the cached block of equal content, or publish its own
   so that "rewrite in place" and "rewrite a copy" are different programs.  The values written are
   computed with the value-level functions of Model/AdjRIBOut.v (redistribute, rewrite, the policy).
   Describes adj_rib_out.go after fix 678760d8 (RefreshRoute starts with CheckRedistribute = Copy).
   Association lists are written by consing (the newest binding of an id wins).  No proofs here. *)
From Coq Require Import List NArith Bool.
Import ListNotations.
From BioVerif Require Import Model.PathIDs Model.AdjRIBOut.
Local Open Scope N_scope.

(* route.BGPPathA *)
Record ablock := mkA {
  a_nh : N; a_src : N; a_lp : N; a_med : N; a_bgpid : N; a_oid : N; a_agg : option (N * N);
  a_ebgp : bool; a_atomic : bool; a_origin : N; a_otc : N;
  (* BGPPathA holds POINTERS to its addresses and the cache compares them as such. Addresses from the wire and
     from the configuration are deduplicated objects (pointer = value); route.NewBGPPathA() however makes a
     fresh 0.0.0.0 object for Source each time, so a redistributed path's block can only ever be shared with
     copies of itself: a_uniq is 0 for ordinary blocks and a fresh number for those. *)
  a_uniq : N }.

Definition a_of (b : bgp) : ablock :=
  mkA (b_nh b) (b_src b) (b_lp b) (b_med b) (b_bgpid b) (b_oid b) (b_agg b) (b_ebgp b) (b_atomic b)
      (b_origin b) (b_otc b) 0.

Definition set_uniq (u : N) (a : ablock) : ablock :=
  mkA (a_nh a) (a_src a) (a_lp a) (a_med a) (a_bgpid a) (a_oid a) (a_agg a) (a_ebgp a) (a_atomic a)
      (a_origin a) (a_otc a) u.

Definition with_a (a : ablock) (b : bgp) : bgp :=
  mkBgp (a_nh a) (a_src a) (a_lp a) (a_med a) (a_bgpid a) (a_oid a) (a_agg a) (a_ebgp a) (a_atomic a)
        (a_origin a) (a_otc a) (b_aspath b) (b_aslen b) (b_cl b) (b_comms b) (b_lcomms b) (b_unk b) (b_pid b).

Definition ablock_eq_dec : forall a b : ablock, {a = b} + {a <> b}.
Proof. repeat decide equality. Defined.

(* a path object: the fields that live in route.Path / route.BGPPath (the BGPPathA fields of o_val are
   not meaningful, the block has them) and the block it points to (None: no BGPPath, a static path) *)
Record pobj := mkObj { o_val : path; o_blk : option N }.

Record heap := mkHeap {
  objs : list (N * pobj); blks : list (N * ablock); cache : list (ablock * N); nxt : N }.

Fixpoint obj_get (o : N) (l : list (N * pobj)) : option pobj :=
  match l with [] => None | (k, v) :: l' => if N.eqb k o then Some v else obj_get o l' end.

Fixpoint blk_get (o : N) (l : list (N * ablock)) : option ablock :=
  match l with [] => None | (k, v) :: l' => if N.eqb k o then Some v else blk_get o l' end.

Fixpoint cache_get (a : ablock) (l : list (ablock * N)) : option N :=
  match l with [] => None | (k, v) :: l' => if ablock_eq_dec k a then Some v else cache_get a l' end.

(* the value of a path object *)
Definition read (h : heap) (o : N) : option path :=
  match obj_get o (objs h) with
  | None => None
  | Some ob =>
    match o_val ob, o_blk ob with
    | PStatic n, _ => Some (PStatic n)
    | PBgp r b, Some k => match blk_get k (blks h) with Some a => Some (PBgp r (with_a a b)) | None => None end
    | PBgp _ _, None => None
    end
  end.

(* Path.Copy *)
Definition alloc_copy (h : heap) (o : N) : heap * N :=
  match obj_get o (objs h) with
  | None => (h, nxt h)                                        (* not reachable; nothing lives at nxt h *)
  | Some ob =>
    match o_blk ob with
    | Some k =>
      match blk_get k (blks h) with
      | Some a => (mkHeap ((nxt h, mkObj (o_val ob) (Some (nxt h + 1))) :: objs h)
                          ((nxt h + 1, a) :: blks h) (cache h) (nxt h + 2), nxt h)
      | None => (h, nxt h)                                    (* not reachable *)
      end
    | None => (mkHeap ((nxt h, ob) :: objs h) (blks h) (cache h) (nxt h + 1), nxt h)
    end
  end.

(* in-place assignment to the object and to its own block; an object without BGPPath gets a new one
   (redistributePath: p.BGPPath = route.NewBGPPath()) *)
Definition write_full (h : heap) (o : N) (v : path) : heap :=
  match obj_get o (objs h), v with
  | Some ob, PBgp r b =>
    match o_blk ob with
    | Some k =>
      let u := match blk_get k (blks h) with Some a => a_uniq a | None => 0 end in
      mkHeap ((o, mkObj v (Some k)) :: objs h) ((k, set_uniq u (a_of b)) :: blks h) (cache h) (nxt h)
    | None => mkHeap ((o, mkObj v (Some (nxt h))) :: objs h) ((nxt h, set_uniq (nxt h + 1) (a_of b)) :: blks h)
                     (cache h) (nxt h + 1)
    end
  | Some ob, PStatic _ => mkHeap ((o, mkObj v (o_blk ob)) :: objs h) (blks h) (cache h) (nxt h)
  | None, _ => h
  end.

(* in-place assignment to a field of the path object itself *)
Definition write_obj (h : heap) (o : N) (v : path) : heap :=
  match obj_get o (objs h) with
  | Some ob => mkHeap ((o, mkObj v (o_blk ob)) :: objs h) (blks h) (cache h) (nxt h)
  | None => h
  end.

(* BGPPath.Dedup / bgpPathACache.get *)
Definition dedup (h : heap) (o : N) : heap :=
  match obj_get o (objs h) with
  | Some ob =>
    match o_blk ob with
    | Some k =>
      match blk_get k (blks h) with
      | Some a =>
        match cache_get a (cache h) with
        | Some k' => mkHeap ((o, mkObj (o_val ob) (Some k')) :: objs h) (blks h) (cache h) (nxt h)
        | None => mkHeap (objs h) (blks h) ((a, k) :: cache h) (nxt h)
        end
      | None => h
      end
    | None => h
    end
  | None => h
  end.

(* ------------------------------------------------------------------ one session's Adj-RIB-Out *)

Record haro (P : Type) := mkHaro { t_tbl : list (N * N); t_pm : pidm hkey; t_cur : P; t_bad : bool }.
Arguments mkHaro {P}.
Arguments t_tbl {P}.
Arguments t_pm {P}.
Arguments t_cur {P}.
Arguments t_bad {P}.

Definition entries (pfx : N) (t : list (N * N)) : list N :=
  map snd (filter (fun e => N.eqb (fst e) pfx) t).

(* the first entry of the prefix whose value satisfies test goes *)
Fixpoint remove_first_by (h : heap) (pfx : N) (test : path -> bool) (t : list (N * N)) : list (N * N) :=
  match t with
  | [] => []
  | (k, o) :: t' =>
    if N.eqb k pfx && match read h o with Some v => test v | None => false end
    then t' else (k, o) :: remove_first_by h pfx test t'
  end.

Definition find_by (h : heap) (test : path -> bool) (l : list N) : option path :=
  match find (fun o => match read h o with Some v => test v | None => false end) l with
  | Some o => read h o
  | None => None
  end.

Section HARO.
  Variable P : Type.
  Variable apply : P -> N -> path -> option path.
  Variable s : sess.

  Notation st := (heap * haro P)%type.

  (* AdjRIBOut.addPath; o is the (fresh) object that holds q *)
  Definition hadd_inner (x : st) (pfx o : N) (q : path) : st :=
    let (h, t) := x in
    if s_addpath s then
      match path_hkey q with
      | None => x
      | Some k =>
        match pid_add hkey hkey_eq_dec k (t_pm t) with
        | (m, AddOk id) =>
          (write_obj h o (path_set_pid id q), mkHaro (t_tbl t ++ [(pfx, o)]) m (t_cur t) (t_bad t))
        | (_, AddErr) => x
        | (_, AddDiverge) => (h, mkHaro (t_tbl t) (t_pm t) (t_cur t) true)
        end
      end
    else (h, mkHaro (filter (fun e => negb (N.eqb (fst e) pfx)) (t_tbl t) ++ [(pfx, o)]) (t_pm t) (t_cur t) (t_bad t)).

  (* AdjRIBOut.removeExportedPath: only reads the store *)
  Definition hremove_exported (x : st) (pfx : N) (q : path) : st :=
    let (h, t) := x in
    match entries pfx (t_tbl t) with
    | [] => x
    | es =>
      if s_addpath s then
        match find_by h (fun sp => is_announcement_of sp q) es with
        | None => x
        | Some sp =>
          let tb := remove_first_by h pfx (fun e => path_compare e sp) (t_tbl t) in
          match path_hkey sp with
          | None => x
          | Some k =>
            match pid_release hkey hkey_eq_dec k (t_pm t) with
            | (_, None) => (h, mkHaro tb (t_pm t) (t_cur t) (t_bad t))
            | (m, Some _) => (h, mkHaro tb m (t_cur t) (t_bad t))
            end
          end
        end
      else (h, mkHaro (remove_first_by h pfx (fun e => path_compare e q) (t_tbl t)) (t_pm t) (t_cur t) (t_bad t))
    end.

  (* AdjRIBOut.removePath: the filter chain works on a copy of the object it is handed *)
  Definition hremove (x : st) (pfx arg : N) : st :=
    let (h, t) := x in
    match read h arg with
    | None => x
    | Some v =>
      if should_propagate s v then
        let (h1, o1) := alloc_copy h arg in
        match apply (t_cur t) pfx v with
        | None => (h1, t)
        | Some q => hremove_exported (write_full h1 o1 q, t) pfx q
        end
      else x
    end.

  Definition hwipe (x : st) (pfx : N) : st :=
    fold_left (fun acc o => hremove acc pfx o) (entries pfx (t_tbl (snd x))) x.

  (* the common start of AddPath and RefreshRoute: CheckRedistribute (copy), redistributePath and the
     rewriting half of checkPropagateUpdate, in place on the copy *)
  Definition hprepare (h : heap) (arg : N) : heap * N * option (N * bgp) :=
    let (h1, o1) := alloc_copy h arg in
    match read h1 o1 with
    | None => (h1, o1, None)
    | Some v1 =>
      let (r, b) := redistribute s v1 in
      (write_full h1 o1 (PBgp r b), o1, Some (r, b))
    end.

  (* AdjRIBOut.AddPath *)
  Definition hadd (x : st) (pfx arg : N) : st :=
    let (h, t) := x in
    match hprepare h arg with
    | (h2, o1, None) => (h2, t)
    | (h2, o1, Some (r, b)) =>
      if should_propagate s (PBgp r b) then
        match rewrite s r b with
        | None => (h2, t)
        | Some b' =>
          let h3 := write_full h2 o1 (PBgp r b') in
          let (h4, o2) := alloc_copy h3 o1 in                (* Chain.Process: mp := pa.Copy() *)
          match apply (t_cur t) pfx (PBgp r b') with
          | None => (h4, t)
          | Some q => hadd_inner (dedup (write_full h4 o2 q) o2, t) pfx o2 q
          end
        end
      else if s_addpath s then hwipe (h2, t) pfx else (h2, t)
    end.

  (* AdjRIBOut.RefreshRoute for one of the Loc-RIB's path objects *)
  Definition hrefresh_one (nw : P) (pfx : N) (x : st) (arg : N) : st :=
    let (h, t) := x in
    match hprepare h arg with
    | (h2, o1, None) => (h2, t)
    | (h2, o1, Some (r, b)) =>
      if should_propagate s (PBgp r b) then
        match rewrite s r b with
        | None => (h2, t)
        | Some b' =>
          let h3 := write_full h2 o1 (PBgp r b') in
          let (h4, oc) := alloc_copy h3 o1 in                (* current chain's working copy *)
          let (h5, on) := alloc_copy h4 o1 in                (* pending chain's working copy *)
          match apply (t_cur t) pfx (PBgp r b'), apply nw pfx (PBgp r b') with
          | None, None => (h5, t)
          | Some c, None => hremove_exported (write_full h5 oc c, t) pfx c
          | None, Some n => hadd_inner (write_full h5 on n, t) pfx on n
          | Some c, Some n =>
            let h6 := write_full (write_full h5 oc c) on n in
            if path_compare c n then (h6, t) else hadd_inner (hremove_exported (h6, t) pfx c) pfx on n
          end
        end
      else (h2, t)
    end.

  (* AdjRIBOut.ReplaceFilterChain; view = the Loc-RIB's path objects per prefix *)
  Definition hreplace (x : st) (nw : P) (view : list (N * list N)) : st :=
    let x' := fold_left (fun acc r => fold_left (hrefresh_one nw (fst r)) (snd r) acc) view x in
    (fst x', mkHaro (t_tbl (snd x')) (t_pm (snd x')) nw (t_bad (snd x'))).

  (* HSend / HWithdraw / HFlush: the Adj-RIB-Out's client, the UpdateSender (protocols/bgp/server/update_sender.go),
     the last consumer on the export side. AddPath hashes the path (ComputeHashWithPathID) and keeps the POINTER
     in toSend; RemovePath reads the path id; the sender loop (_getUpdateInformation, PathAttributes, Serialize)
     reads the object when it packs the UPDATE. None of them assigns to the object, its block or - this is what
     the sharing structure of Path.Copy demands - to the AS path segments' ASN arrays: Path.Copy copies the segment
     structs only, so those arrays are shared by the Loc-RIB's object, its copies in every Adj-RIB-Out and whatever
     a filter chain hands on (BGPPath.Prepend builds a new array instead of writing to the old one). In this model
     an AS path is a value inside the path object, so a write to a shared ASN array IS a write to every object
     sharing it; the sender steps are the identity on the store. *)
  Inductive hop :=
  | HAdd (pfx arg : N) | HRemove (pfx arg : N) | HReplace (nw : P) (view : list (N * list N))
  | HSend (pfx arg : N) | HWithdraw (pfx arg : N) | HFlush.

  Definition hstep (x : st) (o : hop) : st :=
    match o with
    | HAdd pfx arg => hadd x pfx arg
    | HRemove pfx arg => hremove x pfx arg
    | HReplace nw view => hreplace x nw view
    | HSend _ _ | HWithdraw _ _ | HFlush => x
    end.
End HARO.

Arguments HAdd {P}.
Arguments HRemove {P}.
Arguments HReplace {P}.
Arguments HSend {P}.
Arguments HWithdraw {P}.
Arguments HFlush {P}.

(* the environment puts a new path object into the store (the Loc-RIB / an Adj-RIB-In got a route);
   shared = it was deduplicated, as the tables on the import side do *)
Definition hnew (h : heap) (v : path) (shared : bool) : heap * N :=
  match v with
  | PBgp r b =>
    let h1 := mkHeap ((nxt h, mkObj v (Some (nxt h + 1))) :: objs h) ((nxt h + 1, a_of b) :: blks h)
                     (cache h) (nxt h + 2) in
    ((if shared then dedup h1 (nxt h) else h1), nxt h)
  | PStatic _ => (mkHeap ((nxt h, mkObj v None) :: objs h) (blks h) (cache h) (nxt h + 1), nxt h)
  end.

Definition heap_empty : heap := mkHeap [] [] [] 0.
