(* C05 / C06 / C20: executable model of routingtable/adjRIBIn (AdjRIBIn) together with the
   things it talks to: the VRF's contributing-ASN / cluster-id refcounters (util/refcounter),
   its registered clients (each one a Loc-RIB: a bag of (prefix, path) with
   AddPath / RemovePath-by-Path.Compare / ReplacePath-by-Path.Equal) and a log of every call
   delivered to a client.

   The import policy (filter.Chain.Process) is NOT modelled: it is an arbitrary function
   [pfx -> path -> option path] ([None] = rejected) held in the state, so every theorem is
   universally quantified over policies, rewriting ones included.  Chain.Process copies the
   path on entry, so it is a function of the path value (C13/C14 cover that).

   No proofs in this file. *)
From Coq Require Import List NArith Bool.
Import ListNotations.
Open Scope N_scope.

Definition pfx := N.

(* route.Path / route.BGPPath, the attributes that the Adj-RIB-In, the policies used by the
   harness and the Loc-RIB comparison look at.  hid = Path.HiddenReason. *)
Record path := mkPath {
  pid : N;            (* BGPPath.PathIdentifier *)
  lpref : N;          (* LOCAL_PREF *)
  med : N;            (* MED *)
  nhop : N;           (* NEXT_HOP *)
  aspath : list N;    (* AS_PATH, flattened; [] = no segment at all *)
  origid : N;         (* ORIGINATOR_ID, 0 = absent *)
  clist : list N;     (* CLUSTER_LIST *)
  otc : N;            (* OnlyToCustomer, 0 = absent *)
  hid : N             (* HiddenReason: 0 none, 3 AS loop, 4 originator, 5 cluster, 6 OTC, 7 empty AS_PATH *)
}.

Definition set_hid (q : path) (h : N) : path :=
  mkPath (pid q) (lpref q) (med q) (nhop q) (aspath q) (origid q) (clist q) (otc q) h.
Definition set_otc (q : path) (v : N) : path :=
  mkPath (pid q) (lpref q) (med q) (nhop q) (aspath q) (origid q) (clist q) v (hid q).
Definition set_lpref (q : path) (v : N) : path :=
  mkPath (pid q) v (med q) (nhop q) (aspath q) (origid q) (clist q) (otc q) (hid q).
Definition set_pid (q : path) (v : N) : path :=
  mkPath v (lpref q) (med q) (nhop q) (aspath q) (origid q) (clist q) (otc q) (hid q).
Definition set_nhop (q : path) (v : N) : path :=
  mkPath (pid q) (lpref q) (med q) v (aspath q) (origid q) (clist q) (otc q) (hid q).

Fixpoint list_eqb (a b : list N) : bool :=
  match a, b with
  | [], [] => true
  | x :: a', y :: b' => (x =? y) && list_eqb a' b'
  | _, _ => false
  end.

(* Path.Compare -> BGPPath.Compare: path id, BGPPathA.compare (next hop, LOCAL_PREF, MED,
   ORIGINATOR_ID, ...), AS_PATH, CLUSTER_LIST, communities.  OnlyToCustomer and HiddenReason
   are not compared. *)
Definition pcmp (a b : path) : bool :=
  (pid a =? pid b) && (lpref a =? lpref b) && (med a =? med b) && (nhop a =? nhop b) &&
  list_eqb (aspath a) (aspath b) && (origid a =? origid b) && list_eqb (clist a) (clist b).

Definition lenN {A} (l : list A) : N := N.of_nat (length l).
Definition is_nil {A} (l : list A) : bool := match l with [] => true | _ => false end.

(* Path.Equal -> BGPPath.Equal: same path id and Select == 0 (LOCAL_PREF, AS_PATH length, MED,
   effective originator, CLUSTER_LIST length when both present, next hop; the attributes that are
   constant on one session - Origin, EBGP, Source, BGPIdentifier - are left out). *)
Definition peq (a b : path) : bool :=
  (pid a =? pid b) && (lpref a =? lpref b) && (lenN (aspath a) =? lenN (aspath b)) &&
  (med a =? med b) && (origid a =? origid b) &&
  (is_nil (clist a) || is_nil (clist b) || (lenN (clist a) =? lenN (clist b))) &&
  (nhop a =? nhop b).

(* routingtable.SessionAttrs as far as the Adj-RIB-In reads it.  Roles (packet.PeerRoleRoleXxx constants):
   0 Provider, 1 RS, 2 RS-Client, 3 Customer, 4 Peer. *)
Record sattrs := mkSA {
  ibgp : bool;
  addpath_rx : bool;
  rid : N;            (* RouterID *)
  peer_asn : N;       (* PeerASN *)
  deflp : N;          (* DefaultLocalPreference (already defaulted to 100 by New) *)
  role_on : bool;     (* PeerRoleEnabled *)
  role_adv : bool;    (* PeerRoleAdvByPeer *)
  role_remote : N     (* PeerRoleRemote *)
}.

(* util/refcounter.RefcounterUint32: items (value, count) *)
Definition refc := list (N * N).
Fixpoint rc_add (v : N) (r : refc) : refc :=
  match r with
  | [] => [(v, 1)]
  | (k, n) :: r' => if k =? v then (k, n + 1) :: r' else (k, n) :: rc_add v r'
  end.
Fixpoint rc_remove (v : N) (r : refc) : refc :=
  match r with
  | [] => []
  | (k, n) :: r' => if k =? v then (if n - 1 =? 0 then r' else (k, n - 1) :: r') else (k, n) :: rc_remove v r'
  end.
Definition rc_present (v : N) (r : refc) : bool := existsb (fun it => fst it =? v) r.

(* AdjRIBIn.validatePathOnlyToCustomer: None = mismatch, Some q' = valid (q' possibly stamped) *)
Definition validate_otc (sa : sattrs) (q : path) : option path :=
  if negb (role_on sa) || negb (role_adv sa) then Some q else
  let pr := role_remote sa in
  if negb (otc q =? 0) && ((pr =? 3) || (pr =? 2)) then None else
  if negb (otc q =? 0) && (pr =? 4) && negb (otc q =? peer_asn sa) then None else
  if (otc q =? 0) && ((pr =? 0) || (pr =? 4) || (pr =? 1)) then Some (set_otc q (peer_asn sa))
  else Some q.

(* AdjRIBIn.validatePath: (hidden reason, path as mutated by the OTC stamping) *)
Definition validate (sa : sattrs) (asns cids : refc) (q : path) : N * path :=
  if negb (ibgp sa) && is_nil (aspath q) then (7, q) else
  if existsb (fun a => rc_present a asns) (aspath q) then (3, q) else
  if origid q =? rid sa then (4, q) else
  if existsb (fun c => rc_present c cids) (clist q) then (5, q) else
  match validate_otc sa q with
  | None => (6, q)
  | Some q' => (0, q')
  end.

(* a client = a Loc-RIB: bag of (prefix, path) *)
Definition ctable := list (pfx * path).

Definition ct_add (p : pfx) (q : path) (t : ctable) : ctable := t ++ [(p, q)].

(* RoutingTable.RemovePath -> route.removePath: drop the first path of the prefix that Compares equal *)
Fixpoint ct_remove (p : pfx) (q : path) (t : ctable) : ctable :=
  match t with
  | [] => []
  | (p', q') :: r => if (p' =? p) && pcmp q' q then r else (p', q') :: ct_remove p q r
  end.

(* LocRIB.ReplacePath -> Route.ReplacePath: overwrite the first path of the prefix that is Equal to old *)
Fixpoint ct_replace (p : pfx) (o n : path) (t : ctable) : ctable :=
  match t with
  | [] => []
  | (p', q') :: r => if (p' =? p) && peq q' o then (p', n) :: r else (p', q') :: ct_replace p o n r
  end.

Inductive event :=
| EvAdd (c : N) (p : pfx) (q : path)               (* client.AddPath *)
| EvDump (c : N) (p : pfx) (q : path)              (* client.AddPathInitialDump *)
| EvRemove (c : N) (p : pfx) (q : path)            (* client.RemovePath *)
| EvReplace (c : N) (p : pfx) (o n : path)         (* client.ReplacePath *)
| EvEOR (c : N).                                   (* client.EndOfRIB *)

Definition policy := pfx -> path -> option path.

Record st := mkSt {
  sa : sattrs;
  chain : policy;                   (* exportFilterChain (the session's import policy) *)
  tab : list (pfx * path);          (* a.rt: per prefix the paths in insertion order *)
  asns : refc;                      (* vrf contributing ASNs *)
  cids : refc;                      (* vrf contributing cluster ids *)
  regs : list N;                    (* registered clients *)
  ctabs : list (N * ctable);        (* content of every client ever called *)
  log : list event                  (* all calls delivered to clients, newest first *)
}.

Definition init (a : sattrs) (c : policy) : st := mkSt a c [] [] [] [] [] [].

Definition set_tab (s : st) (t : list (pfx * path)) : st :=
  mkSt (sa s) (chain s) t (asns s) (cids s) (regs s) (ctabs s) (log s).
Definition set_chain (s : st) (c : policy) : st :=
  mkSt (sa s) c (tab s) (asns s) (cids s) (regs s) (ctabs s) (log s).
Definition set_asns (s : st) (r : refc) : st :=
  mkSt (sa s) (chain s) (tab s) r (cids s) (regs s) (ctabs s) (log s).
Definition set_cids (s : st) (r : refc) : st :=
  mkSt (sa s) (chain s) (tab s) (asns s) r (regs s) (ctabs s) (log s).
Definition set_regs (s : st) (r : list N) : st :=
  mkSt (sa s) (chain s) (tab s) (asns s) (cids s) r (ctabs s) (log s).

Fixpoint ct_get (c : N) (m : list (N * ctable)) : ctable :=
  match m with
  | [] => []
  | (k, t) :: r => if k =? c then t else ct_get c r
  end.
Fixpoint ct_upd (c : N) (f : ctable -> ctable) (m : list (N * ctable)) : list (N * ctable) :=
  match m with
  | [] => [(c, f [])]
  | (k, t) :: r => if k =? c then (k, f t) :: r else (k, t) :: ct_upd c f r
  end.

(* one call to one client *)
Definition call (c : N) (e : event) (f : ctable -> ctable) (s : st) : st :=
  mkSt (sa s) (chain s) (tab s) (asns s) (cids s) (regs s) (ct_upd c f (ctabs s)) (e :: log s).

(* `for _, client := range a.clientManager.Clients() { ... }` *)
Definition call_all (mk : N -> event) (f : ctable -> ctable) (s : st) : st :=
  fold_left (fun acc c => call c (mk c) f acc) (regs s) s.

Definition at_pfx (p : pfx) (t : list (pfx * path)) : list path :=
  map snd (filter (fun e => fst e =? p) t).

(* AdjRIBIn.removePathsFromClients *)
Definition notify_remove (p : pfx) (removed : list path) (s : st) : st :=
  fold_left (fun acc q =>
    if negb (hid q =? 0) then acc else
    match chain acc p q with
    | None => acc
    | Some q' => call_all (fun c => EvRemove c p q') (ct_remove p q') acc
    end) removed s.

Definition rt_remove_all (p : pfx) (l : list path) (t : list (pfx * path)) : list (pfx * path) :=
  fold_left (fun acc x => ct_remove p x acc) l t.

(* AdjRIBIn.addPath *)
Definition add_path (p : pfx) (q : path) (s : st) : st :=
  let cur := at_pfx p (tab s) in
  let old := if addpath_rx (sa s) then filter (fun x => pid x =? pid q) cur else cur in
  let t1 := rt_remove_all p old (tab s) in
  let hv := validate (sa s) (asns s) (cids s) q in
  let h := fst hv in
  let qv := snd hv in
  let ql := if (h =? 0) && negb (ibgp (sa s)) && (lpref qv =? 0) then set_lpref qv (deflp (sa s)) else qv in
  let qs := set_hid ql h in
  let s1 := notify_remove p old (set_tab s (t1 ++ [(p, qs)])) in
  if negb (h =? 0) then s1 else
  match chain s p qs with
  | None => s1
  | Some q' => call_all (fun c => EvAdd c p q') (ct_add p q') s1
  end.

(* AdjRIBIn.removePath; oid = None models a nil path argument *)
Definition remove_path (p : pfx) (oid : option N) (s : st) : st :=
  let cur := at_pfx p (tab s) in
  let rem := match oid with
             | Some i => if addpath_rx (sa s) then filter (fun x => pid x =? i) cur else cur
             | None => cur
             end in
  notify_remove p rem (set_tab s (rt_remove_all p rem (tab s))).

(* AdjRIBIn.Flush: removePath for every path of the dump taken at entry *)
Definition flush (s : st) : st :=
  fold_left (fun acc e => remove_path (fst e) (Some (pid (snd e))) acc) (tab s) s.

(* ClientManager.RegisterWithOptions + AdjRIBIn.UpdateNewClient *)
Definition register (c : N) (s : st) : st :=
  let s1 := if existsb (N.eqb c) (regs s) then s else set_regs s (regs s ++ [c]) in
  let s2 := fold_left (fun acc e =>
              if negb (hid (snd e) =? 0) then acc else
              match chain acc (fst e) (snd e) with
              | None => acc
              | Some q' => call c (EvDump c (fst e) q') (ct_add (fst e) q') acc
              end) (tab s1) s1 in
  call c (EvEOR c) (fun t => t) s2.

(* AdjRIBIn.Unregister *)
Definition unregister (c : N) (s : st) : st :=
  if negb (existsb (N.eqb c) (regs s)) then s else
  let s1 := set_regs s (filter (fun k => negb (k =? c)) (regs s)) in
  fold_left (fun acc e =>
    if negb (hid (snd e) =? 0) then acc else
    match chain acc (fst e) (snd e) with
    | None => acc
    | Some q' => call c (EvRemove c (fst e) q') (ct_remove (fst e) q') acc
    end) (tab s1) s1.

(* AdjRIBIn.ReplaceFilterChain *)
Definition replace_chain (c' : policy) (s : st) : st :=
  let s1 := fold_left (fun acc e =>
    let p := fst e in let q := snd e in
    if negb (hid q =? 0) then acc else
    match chain s p q, c' p q with
    | None, None => acc
    | None, Some n => call_all (fun c => EvAdd c p n) (ct_add p n) acc
    | Some o, None => call_all (fun c => EvRemove c p o) (ct_remove p o) acc
    | Some o, Some n =>
        if negb (pcmp o n) then call_all (fun c => EvReplace c p o n) (ct_replace p o n) acc else acc
    end) (tab s) s in
  set_chain s1 c'.

Inductive op :=
| Announce (p : pfx) (q : path)       (* AddPath *)
| Withdraw (p : pfx) (i : N)          (* RemovePath with a path carrying identifier i *)
| WithdrawAll (p : pfx)               (* RemovePath(pfx, nil) *)
| Flush
| Register (c : N)
| Unregister (c : N)
| ReplaceChain (c : policy)
| AddASN (a : N) | DelASN (a : N)     (* vrf.Add/RemoveContributingASN *)
| AddCID (a : N) | DelCID (a : N).    (* vrf.Add/RemoveContributingClusterID *)

Definition step (s : st) (o : op) : st :=
  match o with
  | Announce p q => add_path p q s
  | Withdraw p i => remove_path p (Some i) s
  | WithdrawAll p => remove_path p None s
  | Flush => flush s
  | Register c => register c s
  | Unregister c => unregister c s
  | ReplaceChain c => replace_chain c s
  | AddASN a => set_asns s (rc_add a (asns s))
  | DelASN a => set_asns s (rc_remove a (asns s))
  | AddCID a => set_cids s (rc_add a (cids s))
  | DelCID a => set_cids s (rc_remove a (cids s))
  end.

Definition run (a : sattrs) (c : policy) (ops : list op) : st := fold_left step ops (init a c).

(* ---- sample policies used by the correspondence harness (filter chains built from the real
   actions: accept, reject, set LOCAL_PREF, set MED, AS_PATH prepend, set next hop).  They are
   ordinary inhabitants of [policy]; no theorem is about them in particular. *)
Definition set_med (q : path) (v : N) : path :=
  mkPath (pid q) (lpref q) v (nhop q) (aspath q) (origid q) (clist q) (otc q) (hid q).
Definition set_aspath (q : path) (v : list N) : path :=
  mkPath (pid q) (lpref q) (med q) (nhop q) v (origid q) (clist q) (otc q) (hid q).

(* code: 0 accept, 1 reject all, 2 reject odd prefixes, 3 set LOCAL_PREF arg, 4 set MED arg,
   5 prepend arg once, 6 set next hop arg, 7 reject odd prefixes else set LOCAL_PREF arg *)
Definition sample_policy (code arg : N) : policy :=
  fun p q =>
    match code with
    | 0 => Some q
    | 1 => None
    | 2 => if N.odd p then None else Some q
    | 3 => Some (set_lpref q arg)
    | 4 => Some (set_med q arg)
    | 5 => Some (set_aspath q (arg :: aspath q))
    | 6 => Some (set_nhop q arg)
    | _ => if N.odd p then None else Some (set_lpref q arg)
    end.
