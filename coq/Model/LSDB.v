(* C32: executable model of the level 2 link state database of protocols/isis/server:
   lsdb.go (processLSP, processNewerLSPDU, processCSNP, processCSNPLSPEntry(+Unknown), processPSNP,
   decrementRemainingLifetimes, sendLSPDUs, sendPSNPss, requestL2LSPUpdate/l2LSPUpdater, updateL2LSP),
   lsdb_entry.go (setSRM with its three guards, setSSN, clear*, processSameLSPDU, newerLocalLSPDU) and
   lsp.go (nextL2SequencenNumber with its 32 bit wrap, raiseL2SequenceNumber, generateLocalLSP's
   header). LSP contents (TLVs) are not modelled: an LSP is (id, sequence number, remaining lifetime).
   No proofs in this file. *)
From Coq Require Import List Bool NArith Arith.
Import ListNotations.
Open Scope N_scope.

(* LSP ID = (system id, pseudonode id, LSP number), the full 8 byte identifier.
   id_eqb is Go's == on packet.LSPID (the LSDB map key, CSNP.ContainsLSPEntry): all three components.
   id_leb is packet.LSPID.Compare(..) <= 0 (used by CSNP.RangeContainsLSPID): lexicographic on
   system id, pseudonode id, LSP number. *)
Record lspid := mkId { sys : N; pn : N; num : N }.

Definition id_eqb (a b : lspid) : bool := (sys a =? sys b) && (pn a =? pn b) && (num a =? num b).
Definition id_leb (a b : lspid) : bool :=
  (sys a <? sys b) ||
  ((sys a =? sys b) && ((pn a <? pn b) || ((pn a =? pn b) && (num a <=? num b)))).

Record iface := mkIf {
  passive : bool;      (* cfg.Passive *)
  has_nbr : bool       (* len(neighborManagerL2.getNeighbors()) != 0 *)
}.

Record entry := mkE {
  seq : N;
  life : N;            (* lspdu.RemainingLifetime *)
  srm : list nat;      (* interfaces (by index) whose SRM flag is set *)
  ssn : list nat
}.

Record srv := mkS {
  ifs : list iface;
  own : N;                         (* the local system id *)
  db : list (lspid * entry);
  counter : N;                     (* Server.sequenceNumberL2 *)
  pending : bool                   (* a request is queued in lsdb.refreshCh *)
}.

(* the one LSP this system originates: pseudonode 0, LSP number 0 *)
Definition local_id (s : srv) : lspid := mkId (own s) 0 0.

(* ---- flag sets *)
Fixpoint mem (i : nat) (l : list nat) : bool :=
  match l with [] => false | x :: r => Nat.eqb x i || mem i r end.
Definition set_add (i : nat) (l : list nat) : list nat := if mem i l then l else i :: l.
Definition set_del (i : nat) (l : list nat) : list nat := filter (fun x => negb (Nat.eqb x i)) l.

(* ---- the database as an association list *)
Fixpoint lookup (k : lspid) (t : list (lspid * entry)) : option entry :=
  match t with
  | [] => None
  | (k', v) :: r => if id_eqb k' k then Some v else lookup k r
  end.

Fixpoint store (k : lspid) (v : entry) (t : list (lspid * entry)) : list (lspid * entry) :=
  match t with
  | [] => [(k, v)]
  | (k', v') :: r => if id_eqb k' k then (k', v) :: r else (k', v') :: store k v r
  end.

(* lsdbEntry.setSRM: not on passive interfaces, not on interfaces without neighbors, never for
   an entry with sequence number 0 *)
Definition if_ok (s : srv) (i : nat) : bool :=
  match nth_error (ifs s) i with
  | Some f => negb (passive f) && has_nbr f
  | None => false
  end.

Definition set_srm (s : srv) (i : nat) (e : entry) : entry :=
  if if_ok s i && negb (seq e =? 0) then mkE (seq e) (life e) (set_add i (srm e)) (ssn e) else e.
Definition clear_srm (i : nat) (e : entry) : entry := mkE (seq e) (life e) (set_del i (srm e)) (ssn e).
Definition set_ssn (i : nat) (e : entry) : entry := mkE (seq e) (life e) (srm e) (set_add i (ssn e)).
Definition clear_ssn (i : nat) (e : entry) : entry := mkE (seq e) (life e) (srm e) (set_del i (ssn e)).

(* setSRM on every interface of the list (in order) *)
Fixpoint set_srm_all (s : srv) (l : list nat) (e : entry) : entry :=
  match l with [] => e | i :: r => set_srm_all s r (set_srm s i e) end.

Definition all_ifs (s : srv) : list nat := List.seq 0 (length (ifs s)).
Definition all_ifs_except (s : srv) (i : nat) : list nat :=
  filter (fun j => negb (Nat.eqb j i)) (all_ifs s).

Definition with_db (s : srv) (d : list (lspid * entry)) : srv :=
  mkS (ifs s) (own s) d (counter s) (pending s).

(* ---- lsdb.processLSP *)
Definition recv_lsp (s : srv) (i : nat) (k : lspid) (sq lt : N) : srv :=
  let cur := lookup k (db s) in
  let newer := match cur with None => true | Some e => seq e <? sq end in
  if id_eqb k (local_id s) && newer then
    (* a newer copy of the own LSP: raise the counter, request a regeneration, do not install *)
    mkS (ifs s) (own s) (db s) (N.max (counter s) sq) true
  else
    match cur with
    | None =>
      with_db s (store k (set_ssn i (clear_srm i (set_srm_all s (all_ifs_except s i) (mkE sq lt [] [])))) (db s))
    | Some e =>
      if seq e <? sq then
        with_db s (store k (set_ssn i (clear_srm i (set_srm_all s (all_ifs_except s i) (mkE sq lt [] [])))) (db s))
      else if sq =? seq e then
        with_db s (store k (set_ssn i (clear_srm i e)) (db s))          (* processSameLSPDU *)
      else
        with_db s (store k (clear_ssn i (set_srm s i e)) (db s))        (* newerLocalLSPDU *)
    end.

(* ---- lsdb.processCSNPLSPEntry, applied to the entries of CSNPs and PSNPs *)
Definition snp_entry (s : srv) (i : nat) (x : lspid * N * N) : srv :=
  let '(k, sq, lt) := x in
  match lookup k (db s) with
  | None => with_db s (store k (mkE 0 lt [] [i]) (db s))                (* processCSNPLSPEntryUnknown *)
  | Some e =>
    if sq =? seq e then with_db s (store k (clear_srm i e) (db s))
    else if sq <? seq e then with_db s (store k (set_srm s i (clear_ssn i e)) (db s))
    else with_db s (store k (set_ssn i (clear_srm i e)) (db s))
  end.

Definition snp_entries (s : srv) (i : nat) (l : list (lspid * N * N)) : srv :=
  fold_left (fun st x => snp_entry st i x) l s.

Definition mentioned (k : lspid) (l : list (lspid * N * N)) : bool :=
  existsb (fun x => id_eqb (fst (fst x)) k) l.

(* second loop of processCSNP: what the neighbor did not describe within its range gets SRM *)
Definition csnp_missing (s : srv) (i : nat) (lo hi : lspid) (l : list (lspid * N * N))
           (kv : lspid * entry) : lspid * entry :=
  let (k, e) := kv in
  if (life e =? 0) || (seq e =? 0) then kv
  else if negb (id_leb lo k && id_leb k hi) then kv
  else if mentioned k l then kv
  else (k, set_srm s i e).

Definition recv_csnp (s : srv) (i : nat) (lo hi : lspid) (l : list (lspid * N * N)) : srv :=
  let s1 := snp_entries s i l in
  with_db s1 (map (csnp_missing s1 i lo hi l) (db s1)).

Definition recv_psnp (s : srv) (i : nat) (l : list (lspid * N * N)) : srv := snp_entries s i l.

(* ---- lsdb.decrementRemainingLifetimes *)
Definition refresh_threshold : N := 300.
Definition default_lifetime : N := 1800.

(* local: the id of the LSP this system originates - only that entry triggers the refresh *)
Fixpoint age (local : lspid) (t : list (lspid * entry)) : list (lspid * entry) * bool :=
  match t with
  | [] => ([], false)
  | (k, e) :: r =>
    let (r', req') := age local r in
    let req := id_eqb k local && (life e <? refresh_threshold) in
    if life e <=? 1 then (r', req || req')
    else ((k, mkE (seq e) (life e - 1) (srm e) (ssn e)) :: r', req || req')
  end.

Definition tick (s : srv) : srv :=
  let (d, req) := age (local_id s) (db s) in
  mkS (ifs s) (own s) d (counter s) (pending s || req).

(* ---- Server.nextL2SequencenNumber (uint32, skips 0) and lsdb.updateL2LSP *)
Definition two32 : N := 4294967296.
Definition next_seq (c : N) : N :=
  let c1 := (c + 1) mod two32 in if c1 =? 0 then 1 else c1.

Definition regen (s : srv) : srv :=
  let c := next_seq (counter s) in
  let s1 := mkS (ifs s) (own s) (db s) c (pending s) in
  with_db s1 (store (local_id s) (set_srm_all s1 (all_ifs s1) (mkE c default_lifetime [] [])) (db s)).

(* l2LSPUpdater: one iteration when a request is queued *)
Definition service (s : srv) : srv :=
  if pending s then regen (mkS (ifs s) (own s) (db s) (counter s) false) else s.

(* ---- transmissions *)
(* sendLSPDUs: every entry goes out on every non-passive interface whose SRM flag is set *)
Definition lsps_to_send (s : srv) : list (nat * lspid * N) :=
  flat_map (fun kv =>
    map (fun i => (i, fst kv, seq (snd kv)))
        (filter (fun i => match nth_error (ifs s) i with Some f => negb (passive f) | None => false end)
                (srm (snd kv)))) (db s).

(* sendPSNPss: per non-passive interface the entries whose SSN flag is set; then all SSN flags are cleared *)
Definition psnp_for (s : srv) (i : nat) : list (lspid * N) :=
  map (fun kv => (fst kv, seq (snd kv))) (filter (fun kv => mem i (ssn (snd kv))) (db s)).

Definition psnps_to_send (s : srv) : list (nat * list (lspid * N)) :=
  filter (fun p => negb (match snd p with [] => true | _ => false end))
    (map (fun i => (i, psnp_for s i))
       (filter (fun i => match nth_error (ifs s) i with Some f => negb (passive f) | None => false end)
               (all_ifs s))).

(* sendCSNPss: on every interface with an (Up) neighbor one CSNP describing the whole database
   (NewCSNPs; a single PDU covering the whole id range as long as the entries fit into one) *)
Definition csnps_to_send (s : srv) : list (nat * list (lspid * N)) :=
  map (fun i => (i, map (fun kv => (fst kv, seq (snd kv))) (db s)))
    (filter (fun i => match nth_error (ifs s) i with Some f => negb (passive f) && has_nbr f | None => false end)
            (all_ifs s)).

Definition clear_all_ssn (s : srv) : srv :=
  with_db s (map (fun kv => (fst kv, mkE (seq (snd kv)) (life (snd kv)) (srm (snd kv)) [])) (db s)).

Inductive event :=
| RecvLSP (i : nat) (k : lspid) (sq lt : N)
| RecvCSNP (i : nat) (lo hi : lspid) (l : list (lspid * N * N))
| RecvPSNP (i : nat) (l : list (lspid * N * N))
| Tick
| Service
| Regen
| SendLSPs
| SendPSNPs
| SendCSNPs.

Definition step (s : srv) (e : event) : srv :=
  match e with
  | RecvLSP i k sq lt => recv_lsp s i k sq lt
  | RecvCSNP i lo hi l => recv_csnp s i lo hi l
  | RecvPSNP i l => recv_psnp s i l
  | Tick => tick s
  | Service => service s
  | Regen => regen s
  | SendLSPs => s
  | SendPSNPs => clear_all_ssn s
  | SendCSNPs => s
  end.

Definition run (s : srv) (evs : list event) : srv := fold_left step evs s.

(* the harness' start: Start() generates the local LSP, then the updater serves the request that the
   link-ups and adjacencies had queued *)
Definition init (ifaces : list iface) (ownsys : N) : srv :=
  regen (regen (mkS ifaces ownsys [] 0 false)).
