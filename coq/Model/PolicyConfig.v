(* C14, configuration front end: cmd/bio-rd/config/policy.go and the filter-chain part of
   cmd/bio-rd/config/bgp.go as a translation from the parsed YAML (policy statements, one BGP
   group with one neighbor) to the chain AST of Model/Policy.v.  `None` = the loader returns an
   error.  Strings that can fail to parse are modelled by their parse result (crf_ok: the prefix
   text parses; crf_m = None: unknown matcher name; th_nh = Some None: bad next-hop address).
   Every route filter of a statement gets its own freshly allocated pattern pointer (crf_pat);
   a statement is converted ONCE (PolicyOptions.load), so chains that reference the same
   statement share the filter object.  No proofs in this file. *)
From Coq Require Import List NArith Bool.
Import ListNotations.
From BioVerif Require Import Model.Policy.
Local Open Scope N_scope.

Record cfg_rf := mkCRF { crf_pat : ptr; crf_ok : bool; crf_m : option matcher }.

Record cfg_then := mkThen {
  th_reject : bool;
  th_lp : option N;
  th_med : option N;
  th_pp : option (N * N);          (* asn, count *)
  th_nh : option (option ip);
  th_accept : bool }.

Record cfg_term := mkCT { ct_rfs : list cfg_rf; ct_then : cfg_then }.
Record cfg_stmt := mkCS { cs_name : N; cs_terms : list cfg_term }.

Record cfg := mkCfg {
  cfg_stmts : list cfg_stmt;
  cfg_gimport : list N;            (* group: import / export policy names *)
  cfg_gexport : list N;
  cfg_nimport : list N;            (* neighbor *)
  cfg_nexport : list N }.

(* for ... { x, err := f(...); if err != nil { return nil, err }; out = append(out, x) } *)
Fixpoint map_opt {A B : Type} (f : A -> option B) (l : list A) : option (list B) :=
  match l with
  | [] => Some []
  | x :: l' =>
    match f x with
    | None => None
    | Some y => match map_opt f l' with None => None | Some ys => Some (y :: ys) end
    end
  end.

(* RouteFilter.toFilterRouteFilter *)
Definition to_rf (f : cfg_rf) : option route_filter :=
  if negb (crf_ok f) then None
  else match crf_m f with
       | None => None
       | Some m => Some (mkRF (crf_pat f) m)
       end.

(* PolicyStatementTerm.toFilterTerm: one condition holding all route filters (none if there are no
   route filters); actions in the fixed order reject, local-pref, MED, prepend, next hop, accept *)
Definition to_term (t : cfg_term) : option term :=
  match map_opt to_rf (ct_rfs t) with
  | None => None
  | Some rfs =>
    let conds := if is_nil rfs then [] else [mkCond [] rfs [] [] []] in
    let th := ct_then t in
    let a1 := if th_reject th then [AReject] else [] in
    let a2 := match th_lp th with Some v => a1 ++ [ASetLocalPref v] | None => a1 end in
    let a3 := match th_med th with Some v => a2 ++ [ASetMED v] | None => a2 end in
    let a4 := match th_pp th with Some (asn, n) => a3 ++ [APrepend asn n] | None => a3 end in
    match th_nh th with
    | Some None => None
    | Some (Some nh) =>
      let a5 := a4 ++ [ASetNextHop nh] in
      Some (mkTerm conds (if th_accept th then a5 ++ [AAccept] else a5))
    | None => Some (mkTerm conds (if th_accept th then a4 ++ [AAccept] else a4))
    end
  end.

(* PolicyStatement.toFilter *)
Definition to_filter (s : cfg_stmt) : option filter := map_opt to_term (cs_terms s).

(* PolicyOptions.load: every statement is converted, referenced or not *)
Definition load_statements (l : list cfg_stmt) : option (list (N * filter)) :=
  map_opt (fun s => match to_filter s with Some f => Some (cs_name s, f) | None => None end) l.

(* PolicyOptions.getPolicyStatementFilter: the first filter with that name *)
Fixpoint get_filter (name : N) (fs : list (N * filter)) : option filter :=
  match fs with
  | [] => None
  | (n, f) :: fs' => if n =? name then Some f else get_filter name fs'
  end.

(* for i := range names { f := get(names[i]); if f == nil { return error }; chain = append(chain, f) } *)
Definition build_chain (fs : list (N * filter)) (names : list N) : option chain :=
  map_opt (fun n => get_filter n fs) names.

(* Config.load -> BGPGroup.load -> BGPNeighbor.load: (neighbor import chain, neighbor export chain);
   a neighbor without import (export) list inherits the group's chain *)
Definition load_cfg (c : cfg) : option (chain * chain) :=
  match load_statements (cfg_stmts c) with
  | None => None
  | Some fs =>
    match build_chain fs (cfg_gimport c), build_chain fs (cfg_gexport c) with
    | Some gi, Some ge =>
      match build_chain fs (cfg_nimport c), build_chain fs (cfg_nexport c) with
      | Some ni, Some ne =>
        Some (if is_nil (cfg_nimport c) then gi else ni, if is_nil (cfg_nexport c) then ge else ne)
      | _, _ => None
      end
    | _, _ => None
    end
  end.
