(* C16/C19/C17: executable byte-level model of protocols/bgp/packet (decoder side).

   Transcribed from decoder.go, nlri.go, path_attributes.go, mp_reach_nlri.go, mp_unreach_nlri.go,
   helper.go, label.go, util/decode and net.{IPFromBytes,IPv4FromBytes,Prefix.Valid,BytesInAddr}.

   * A buffer is a `list N`; every primitive reader normalises what it reads with `mod 256`, so the
     model is total on `list N` and is the identity on real byte strings.
   * Reader disciplines of the Go code:
       - `buf.ReadByte` / util/decode.DecodeUintNN / `binary.Read` (decode.Decode): all-or-error.
         A failing read may have consumed a part of the buffer, but every caller turns the error
         into a decoding error of the whole message, so the partially consumed state is not
         observable; the model returns `Err` at once.               -> readByte, readU16, readU32, binRead
       - `bytes.Buffer.Read(p)`: returns n < len(p) WITHOUT an error when the buffer holds fewer
         (but > 0) bytes; io.EOF only when the buffer is empty and len(p) > 0; (0, nil) when
         len(p) = 0. The bytes of p that were not filled stay zero.   -> bufRead
   * Machine arithmetic that can wrap is written with explicit `mod 2^n` (uint8 `read`,
     `pfxLen`, `1+nextHopLength`; uint16 `p` of decodePathAttrs).
   * Outcomes: `Ok v rest`, `Err` (Go returned an error), `Panic why` (Go would panic: slice bounds
     out of range; make with a negative size), `OutOfFuel` (the loop fuel ran out).
   * Cost: the second component of a result counts the bytes requested by every
     `make([]T, n)` whose n is driven by a length/count field of the message (n * sizeof T).
     Constant-size allocations (structs, the 3-byte label buffer, the <=16-byte address buffer of
     deserializePrefix, slice growth by append) are not counted: there are O(1) of them per loop
     iteration. *)
From Coq Require Import List NArith Bool Arith.
Import ListNotations.
Local Open Scope N_scope.

(* ------------------------------------------------------------------ monad *)

Inductive outcome (A : Type) : Type :=
| Ok (a : A) (rest : list N)
| Err
| Panic (why : N)
| OutOfFuel.
Arguments Ok {A} a rest.
Arguments Err {A}.
Arguments Panic {A} why.
Arguments OutOfFuel {A}.

(* buffer -> bytes allocated so far -> (outcome, bytes allocated so far) *)
Definition M (A : Type) : Type := list N -> N -> outcome A * N.

Definition ret {A} (a : A) : M A := fun b al => (Ok a b, al).
Definition bind {A B} (m : M A) (f : A -> M B) : M B := fun b al =>
  match m b al with
  | (Ok a r, al') => f a r al'
  | (Err, al') => (Err, al')
  | (Panic w, al') => (Panic w, al')
  | (OutOfFuel, al') => (OutOfFuel, al')
  end.
Definition fail {A} : M A := fun _ al => (Err, al).
Definition panic {A} (w : N) : M A := fun _ al => (Panic w, al).
Definition nofuel {A} : M A := fun _ al => (OutOfFuel, al).
Definition alloc (n : N) : M unit := fun b al => (Ok tt b, al + n).
Definition guard (c : bool) : M unit := if c then ret tt else fail.   (* if !c { return err } *)
Definition getBuf : M (list N) := fun b al => (Ok b b, al).
Definition dropBuf (k : nat) : M unit := fun b al => (Ok tt (skipn k b), al).   (* b = b[k:] *)

Notation "x <- m ;; f" := (bind m (fun x => f)) (at level 61, m at next level, right associativity).
Notation "' pat <- m ;; f" := (bind m (fun x => match x with pat => f end))
  (at level 61, pat pattern, m at next level, right associativity).

Definition len {A} (b : list A) : N := N.of_nat (length b).
Definition byte (x : N) : N := x mod 256.

(* ------------------------------------------------------------------ readers *)

Definition readByte : M N := fun b al =>
  match b with
  | [] => (Err, al)
  | x :: r => (Ok (byte x) r, al)
  end.

Definition readU16 : M N := a <- readByte ;; b <- readByte ;; ret (a * 256 + b).
Definition readU32 : M N :=
  a <- readByte ;; b <- readByte ;; c <- readByte ;; d <- readByte ;;
  ret (a * 16777216 + b * 65536 + c * 256 + d).

(* binary.Read into a []byte of length n: all n bytes or an error *)
Definition binRead (n : N) : M (list N) := fun b al =>
  let got := firstn (N.to_nat n) b in
  if len got =? n then (Ok (map byte got) (skipn (N.to_nat n) b), al) else (Err, al).

(* bytes.Buffer.Read(p), len(p) = n: (p after the call, number of bytes read) *)
Definition bufRead (n : N) : M (list N * N) := fun b al =>
  if n =? 0 then (Ok ([], 0) b, al)
  else match b with
       | [] => (Err, al)                                                (* io.EOF *)
       | _ =>
         let got := firstn (N.to_nat n) b in
         let k := len got in                                            (* min n (len b) *)
         (Ok (map byte got ++ repeat 0 (N.to_nat (n - k)), k) (skipn (N.to_nat k) b), al)
       end.

(* dumpNBytes / the ReadByte loops that skip n bytes: n times ReadByte, error at EOF *)
Definition dumpN (n : N) : M unit := fun b al =>
  if len (firstn (N.to_nat n) b) =? n then (Ok tt (skipn (N.to_nat n) b), al) else (Err, al).

(* n, err := buf.Read(p); if err != nil { error }; if n < len(p) (or n != len(p)) { error } *)
Definition bufReadFull (n : N) : M (list N) :=
  '(p, k) <- bufRead n ;;
  _ <- guard (negb (k <? n)) ;;
  ret p.

(* read4BytesAsUint32: buf.Read into [4]byte, error unless 4 bytes were read *)
Definition read4 : M N :=
  p <- bufReadFull 4 ;;
  ret (nth 0 p 0 * 16777216 + nth 1 p 0 * 65536 + nth 2 p 0 * 256 + nth 3 p 0).

(* run m on the byte slice sub (a bytes.NewBuffer(sub)); the outer buffer is untouched *)
Definition runSub {A} (sub : list N) (m : M A) : M A := fun b al =>
  match m sub al with
  | (Ok a _, al') => (Ok a b, al')
  | (Err, al') => (Err, al')
  | (Panic w, al') => (Panic w, al')
  | (OutOfFuel, al') => (OutOfFuel, al')
  end.

(* b := make([]byte, L); n, err := buf.Read(b); if err != nil || n != L { error }; inner(b) *)
Definition subparse {A} (L : N) (inner : M A) : M A :=
  _ <- alloc L ;;
  sub <- bufReadFull L ;;
  runSub sub inner.

(* n times m, results in order (the count-driven for loops) *)
Fixpoint repeatM {A} (n : nat) (m : M A) : M (list A) :=
  match n with
  | O => ret []
  | S k => x <- m ;; r <- repeatM k m ;; ret (x :: r)
  end.

(* ------------------------------------------------------------------ decoded messages *)

Record options := mkOpts { addPath4 : bool; addPath6 : bool; asn32 : bool; extNH : bool }.

(* bnet.IP: isLegacy with a 32-bit value, or (higher, lower) *)
Inductive ip := IP4 (v : N) | IP6 (hi lo : N).
Record prefix := mkPfx { p_ip : ip; p_len : N }.
Record nlri := mkNLRI { n_id : N; n_labels : list N; n_pfx : prefix }.

Inductive attrval :=
| AVOrigin (o : N)
| AVASPath (segs : list (N * list N))
| AVNextHop (a : ip)
| AVU32 (v : N)                         (* MED, LOCAL_PREF, ORIGINATOR_ID, AS4_AGGREGATOR *)
| AVAggregator (asn addr : N)
| AVNone                                (* ATOMIC_AGGREGATE: Value stays nil *)
| AVComms (l : list N)
| AVLarge (l : list (N * N * N))
| AVCluster (l : list N)
| AVMPReach (afi safi : N) (nh : ip) (nl : list nlri)
| AVMPUnreach (afi safi : N) (nl : list nlri)
| AVUnknown (v : list N)
| AVNil.                                (* encoder input only: a typed nil pointer as Value *)

Record attr := mkAttr {
  a_opt : bool; a_trans : bool; a_part : bool; a_ext : bool;
  a_type : N; a_len : N; a_val : attrval }.

Record update_msg := mkUpdate {
  u_wlen : N; u_withdrawn : list nlri; u_tpal : N; u_attrs : list attr; u_nlri : list nlri }.

Inductive capval :=
| CVMP (afi safi : N)
| CVAddPath (l : list (N * N * N))      (* AFI, SAFI, SendReceive *)
| CVASN4 (a : N)
| CVRole (r : N)
| CVExtNH (l : list (N * N * N))        (* AFI, SAFI, NextHopAFI *)
| CVNone.                               (* unknown capability: Value stays nil *)
Record cap := mkCap { c_code : N; c_len : N; c_val : capval }.
Record optparam := mkOptParam { o_type : N; o_len : N; o_caps : list cap }.
Record open_msg := mkOpen {
  op_version : N; op_asn : N; op_hold : N; op_id : N; op_optlen : N; op_params : list optparam }.

Inductive body :=
| BOpen (o : open_msg)
| BUpdate (u : update_msg)
| BKeepalive
| BNotification (code sub : N).
Record msg := mkMsg { m_len : N; m_type : N; m_body : body }.

(* ------------------------------------------------------------------ net helpers *)

(* net.BytesInAddr: uint8(math.Ceil(float64(pfxlen) / 8)) *)
Definition bytesInAddr (pfxLen : N) : N := (pfxLen + 7) / 8.

Definition be32 (b : list N) : N :=
  nth 0 b 0 * 16777216 + nth 1 b 0 * 65536 + nth 2 b 0 * 256 + nth 3 b 0.
Definition be64 (b : list N) : N := be32 b * 4294967296 + be32 (skipn 4 b).

(* net.IPv4FromBytes: 0..4 bytes are padded with zeros; anything longer gives IP{} (all-zero, not legacy) *)
Definition ipv4FromBytes (b : list N) : ip :=
  if len b <=? 4 then IP4 (be32 b) else IP6 0 0.

Definition allZero (b : list N) : bool := forallb (fun x => x =? 0) b.

(* net.IPFromBytes: net.IP(b).To4() first (4 bytes, or 16 bytes with the ::ffff:0:0/96 prefix), then 16 bytes *)
Definition ipFromBytes (b : list N) : option ip :=
  if len b =? 4 then Some (IP4 (be32 b))
  else if len b =? 16 then
    if allZero (firstn 10 b) && (nth 10 b 0 =? 255) && (nth 11 b 0 =? 255)
    then Some (IP4 (be32 (skipn 12 b)))
    else Some (IP6 (be64 b) (be64 (skipn 8 b)))
  else None.

(* Prefix.Valid with its uint8 arithmetic: the shift counts 32-(32-len), 64-(64-len), 64-(64-(len-64))
   wrap to len resp. len-64 for every len <= 255, and a shift by >= the width gives 0 *)
Definition validPfx (a : ip) (l : N) : bool :=
  match a with
  | IP4 v => (v * 2 ^ l) mod 4294967296 =? 0
  | IP6 hi lo =>
    if l <=? 64 then (lo =? 0) && ((hi * 2 ^ l) mod 18446744073709551616 =? 0)
    else (lo * 2 ^ (l - 64)) mod 18446744073709551616 =? 0
  end.

(* afiAddrLenBytes *)
Definition afiAddrLen (afi : N) : N := if afi =? 1 then 4 else if afi =? 2 then 16 else 0.

(* helper.go: deserializePrefix *)
Definition deserializePrefix (b : list N) (pfxLen afi : N) : M prefix :=
  _ <- guard (bytesInAddr pfxLen =? len b) ;;
  _ <- guard (pfxLen <=? afiAddrLen afi * 8) ;;              (* fix 8d70c882: family width *)
  if afi =? 1 then ret (mkPfx (ipv4FromBytes b) pfxLen)
  else
    let alen := N.to_nat (afiAddrLen afi) in
    let ipb := firstn alen (b ++ repeat 0 alen) in       (* ipBytes := make(alen); copy(ipBytes, b) *)
    match ipFromBytes ipb with
    | None => fail
    | Some a =>
      (* fix: an IPv6 NLRI stays IPv6 even inside ::ffff:0:0/96 (IPFromBytes would give the IPv4 address) *)
      let a := match a with
               | IP4 _ => if afi =? 2 then IP6 (be64 ipb) (be64 (skipn 8 ipb)) else a
               | IP6 _ _ => a
               end in
      _ <- guard (validPfx a pfxLen) ;; ret (mkPfx a pfxLen)
    end.

(* DecodeOptions.addPath *)
Definition addPathFor (o : options) (afi safi : N) : bool :=
  if afi =? 1 then (if safi =? 1 then addPath4 o else false)
  else if afi =? 2 then (if safi =? 1 then addPath6 o else false)
  else false.

(* ------------------------------------------------------------------ NLRI (nlri.go, label.go) *)

(* the `for {}` loop over label stack entries; consumed is an int (fix cb347c01) *)
Fixpoint decodeLabels (fuel : nat) (pfxLen consumed : N) (acc : list N) : M (list N * N * N) :=
  match fuel with
  | O => nofuel
  | S f =>
    '(lb, _) <- bufRead 3 ;;                               (* n is ignored by decodeLabelStackEntry *)
    let lse := nth 0 lb 0 * 65536 + nth 1 lb 0 * 256 + nth 2 lb 0 in
    _ <- guard (24 <=? pfxLen) ;;                           (* fix: label stack within the NLRI length *)
    let consumed := consumed + 3 in
    let pfxLen := pfxLen - 24 in
    if N.odd lse then ret (rev (lse :: acc), pfxLen, consumed)
    else decodeLabels f pfxLen consumed (lse :: acc)
  end.

Definition decodeNLRI (fuel : nat) (afi safi : N) (addPath : bool) : M (nlri * N) :=
  '(pid, consumed) <- (if addPath then (x <- readU32 ;; ret (x, 4)) else ret (0, 0)) ;;
  pfxLen <- readByte ;;
  let consumed := consumed + 1 in
  '(labels, pfxLen, consumed) <-
     (if safi =? 4 then decodeLabels fuel pfxLen consumed [] else ret ([], pfxLen, consumed)) ;;
  let numBytes := bytesInAddr pfxLen in
  _ <- alloc numBytes ;;                                     (* bytes := make([]byte, numBytes) *)
  bytes <- bufReadFull numBytes ;;                           (* r == numBytes from here on *)
  let consumed := consumed + numBytes in
  pfx <- deserializePrefix bytes pfxLen afi ;;
  ret (mkNLRI pid labels pfx, consumed).

(* decodeNLRIs: `for p < length`, p an int; afterwards p must equal length (fix cb347c01) *)
Fixpoint decodeNLRIs (fuel : nat) (length p afi safi : N) (addPath : bool) (acc : list nlri)
  : M (list nlri) :=
  match fuel with
  | O => nofuel
  | S f =>
    if p <? length then
      '(n, consumed) <- decodeNLRI fuel afi safi addPath ;;
      decodeNLRIs f length (p + consumed) afi safi addPath (n :: acc)
    else _ <- guard (p =? length) ;; ret (rev acc)
  end.

(* ------------------------------------------------------------------ MP_REACH / MP_UNREACH *)

(* deserializeMultiProtocolReachNLRI, run on the buffer holding the attribute value b (len b = L).
   `variable` is the rest of that buffer after AFI, SAFI and the next-hop length. *)
Definition deserializeMPReachBody (fuel : nat) (o : options) : M attrval :=
  afi <- readU16 ;; safi <- readByte ;; nhl <- readByte ;;
  variable <- getBuf ;;
  let budget := len variable in
  _ <- guard (negb (budget <? nhl)) ;;
  let first := if nhl =? 32 then 16 else nhl in
  if len variable <? first then panic 1 else                 (* variable[:firstNextHopLength] *)
  match ipFromBytes (map byte (firstn (N.to_nat first) variable)) with
  | None => fail
  | Some nh =>
    let budget := budget - nhl in
    if budget =? 0 then ret (AVMPReach afi safi nh [])
    else
      let idx := (1 + nhl) mod 256 in                        (* uint8 arithmetic *)
      if len variable <? idx then panic 2 else               (* variable[1+nextHopLength:] *)
      _ <- dropBuf (N.to_nat idx) ;;
      rest <- getBuf ;;
      nl <- decodeNLRIs fuel (len rest mod 65536) 0 afi safi (addPathFor o afi safi) [] ;;
      ret (AVMPReach afi safi nh nl)
  end.

Definition deserializeMPReach (fuel : nat) (o : options) (L : N) : M attrval :=
  _ <- guard (4 <? L) ;;                                     (* variableLength = len(b)-4 <= 0: error *)
  _ <- alloc (L - 4) ;;                                      (* variable := make([]byte, variableLength) *)
  deserializeMPReachBody fuel o.

(* deserializeMultiProtocolUnreachNLRI *)
Definition deserializeMPUnreachBody (fuel : nat) (o : options) : M attrval :=
  afi <- readU16 ;; safi <- readByte ;;
  rest <- getBuf ;;
  if len rest =? 0 then ret (AVMPUnreach afi safi [])
  else
    nl <- decodeNLRIs fuel (len rest mod 65536) 0 afi safi (addPathFor o afi safi) [] ;;
    ret (AVMPUnreach afi safi nl).

Definition deserializeMPUnreach (fuel : nat) (o : options) (L : N) : M attrval :=
  _ <- guard (negb (L <? 3)) ;;                              (* prefixesLength = len(b)-3 < 0: error *)
  _ <- alloc (L - 3) ;;                                      (* nlris := make([]byte, prefixesLength) *)
  deserializeMPUnreachBody fuel o.

(* ------------------------------------------------------------------ path attributes *)

Definition decodeASN (asnLen : N) : M N := if asnLen =? 4 then readU32 else readU16.

(* decodeASPath: `for p < pa.Length`, p an int; afterwards p must equal pa.Length (fix 2a770554) *)
Fixpoint decodeASPath (fuel : nat) (L asnLen p : N) (acc : list (N * list N)) : M attrval :=
  match fuel with
  | O => nofuel
  | S f =>
    if p <? L then
      ty <- readByte ;;
      count <- readByte ;;
      let p := p + 2 in
      _ <- guard ((ty =? 1) || (ty =? 2)) ;;
      _ <- guard (negb (count =? 0)) ;;
      _ <- alloc (4 * count) ;;                                (* make([]uint32, count) *)
      asns <- repeatM (N.to_nat count) (decodeASN asnLen) ;;
      let p := p + count * asnLen in
      decodeASPath f L asnLen p ((ty, asns) :: acc)
    else _ <- guard (p =? L) ;; ret (AVASPath (rev acc))
  end.

Definition decodeU32List (L : N) : M (list N) :=               (* communities, cluster list *)
  _ <- guard (L mod 4 =? 0) ;;
  _ <- alloc (4 * (L / 4)) ;;
  repeatM (N.to_nat (L / 4)) read4.

Definition decodeLarge (L : N) : M (list (N * N * N)) :=
  _ <- guard (L mod 12 =? 0) ;;
  _ <- alloc (12 * (L / 12)) ;;
  repeatM (N.to_nat (L / 12)) (a <- read4 ;; b <- read4 ;; c <- read4 ;; ret (a, b, c)).

(* decodeUint32 (ORIGINATOR_ID, AS4_AGGREGATOR): Length >= 4 (fix 127ffb48), 4 bytes, then skip Length-4 bytes *)
Definition decodeU32Dump (L : N) : M attrval :=
  _ <- guard (4 <=? L) ;; v <- read4 ;; _ <- dumpN (L - 4) ;; ret (AVU32 v).

Definition decodeAttrValue (fuel : nat) (o : options) (ty L : N) : M attrval :=
  if ty =? 1 then _ <- guard (1 <=? L) ;; v <- readByte ;; _ <- dumpN (L - 1) ;; ret (AVOrigin v)
  else if ty =? 2 then decodeASPath fuel L (if asn32 o then 4 else 2) 0 []
  else if ty =? 3 then _ <- guard (L =? 4) ;; v <- readU32 ;; ret (AVNextHop (IP4 v))
  else if ty =? 4 then _ <- guard (L =? 4) ;; v <- readU32 ;; ret (AVU32 v)
  else if ty =? 5 then _ <- guard (L =? 4) ;; v <- readU32 ;; ret (AVU32 v)
  else if ty =? 7 then
    _ <- guard (6 <=? L) ;; a <- readU16 ;; ad <- readU32 ;; _ <- dumpN (L - 6) ;; ret (AVAggregator a ad)
  else if ty =? 6 then _ <- guard (L =? 0) ;; ret AVNone
  else if ty =? 8 then l <- decodeU32List L ;; ret (AVComms l)
  else if ty =? 9 then decodeU32Dump L
  else if ty =? 10 then l <- decodeU32List L ;; ret (AVCluster l)
  else if ty =? 14 then subparse L (deserializeMPReach fuel o L)
  else if ty =? 15 then subparse L (deserializeMPUnreach fuel o L)
  else if ty =? 18 then decodeU32Dump L
  else if ty =? 32 then l <- decodeLarge L ;; ret (AVLarge l)
  else _ <- alloc L ;; v <- binRead L ;; ret (AVUnknown v).    (* u := make([]byte, Length) *)

(* decodePathAttr: returns the attribute and consumed + pa.Length (uint16) *)
Definition decodePathAttr (fuel : nat) (o : options) : M (attr * N) :=
  flags <- readByte ;;
  ty <- readByte ;;
  let ext := N.testbit flags 4 in
  '(L, n) <- (if ext then (x <- readU16 ;; ret (x, 2)) else (x <- readByte ;; ret (x, 1))) ;;
  v <- decodeAttrValue fuel o ty L ;;
  ret (mkAttr (N.testbit flags 7) (N.testbit flags 6) (N.testbit flags 5) ext ty L v,
       (2 + n + L) mod 65536).

(* decodePathAttrs: `for p < tpal`; have = (haveNextHop, haveOrigin, haveASPath) *)
Fixpoint decodePathAttrsLoop (fuel : nat) (o : options) (tpal p : N) (haveNH haveO haveAS : bool)
  (acc : list attr) : M (list attr) :=
  match fuel with
  | O => nofuel
  | S f =>
    if p <? tpal then
      '(pa, consumed) <- decodePathAttr fuel o ;;
      let t := a_type pa in
      decodePathAttrsLoop f o tpal ((p + consumed) mod 65536)
        (haveNH || (t =? 3) || (t =? 14)) (haveO || (t =? 1)) (haveAS || (t =? 2)) (pa :: acc)
    else
      _ <- guard (negb (haveNH || haveO || haveAS) || (haveNH && haveO && haveAS)) ;;
      ret (rev acc)
  end.

Definition decodePathAttrs (fuel : nat) (o : options) (tpal : N) : M (list attr) :=
  if tpal =? 0 then ret [] else decodePathAttrsLoop fuel o tpal 0 false false false [].

(* ------------------------------------------------------------------ UPDATE *)

Definition hasAttr (t : N) (l : list attr) : bool := existsb (fun a => a_type a =? t) l.

Definition decodeUpdate (fuel : nat) (o : options) (l : N) : M update_msg :=
  wlen <- readU16 ;;
  wd <- decodeNLRIs fuel wlen 0 1 1 (addPath4 o) [] ;;
  tpal <- readU16 ;;
  _ <- guard (4 + wlen + tpal <=? l) ;;                      (* fix e9b797e7: no uint16 wrap below *)
  attrs <- decodePathAttrs fuel o tpal ;;
  let nlriLen := l - 4 - tpal - wlen in
  if 0 <? nlriLen then
    nl <- decodeNLRIs fuel nlriLen 0 1 1 (addPath4 o) [] ;;
    (* fix 1a8a2a3a: NLRI present => ORIGIN, AS_PATH, NEXT_HOP present *)
    _ <- guard (hasAttr 1 attrs && hasAttr 2 attrs && hasAttr 3 attrs) ;;
    ret (mkUpdate wlen wd tpal attrs nl)
  else ret (mkUpdate wlen wd tpal attrs []).

(* ------------------------------------------------------------------ NOTIFICATION *)

Definition notificationOK (code sub : N) : bool :=
  if 6 <? code then false
  else if code =? 1 then negb ((3 <? sub) || (sub =? 0))
  else if code =? 2 then negb (((6 <? sub) && negb (sub =? 11)) || (sub =? 0) || (sub =? 5))
  else if code =? 3 then negb ((11 <? sub) || (sub =? 0) || (sub =? 7))
  else if code =? 4 then sub =? 0
  else if code =? 5 then sub =? 0
  else if code =? 6 then negb (8 <? sub)
  else false.

Definition decodeNotification : M body :=
  code <- readByte ;; sub <- readByte ;;
  _ <- guard (notificationOK code sub) ;;
  ret (BNotification code sub).

(* ------------------------------------------------------------------ OPEN *)

Definition decodeCapValue (code L : N) : M capval :=
  if code =? 1 then afi <- readU16 ;; _ <- readByte ;; safi <- readByte ;; ret (CVMP afi safi)
  else if code =? 69 then
    _ <- guard (L mod 4 =? 0) ;;
    l <- repeatM (N.to_nat (L / 4))
           (afi <- readU16 ;; safi <- readByte ;; sr <- readByte ;; ret (afi, safi, sr)) ;;
    ret (CVAddPath l)
  else if code =? 65 then a <- readU32 ;; ret (CVASN4 a)
  else if code =? 9 then r <- readByte ;; ret (CVRole r)
  else if code =? 5 then
    _ <- guard (L mod 6 =? 0) ;;
    l <- repeatM (N.to_nat (L / 6))
           (afi <- readU16 ;; safi <- readU16 ;; nh <- readU16 ;; ret (afi, safi, nh)) ;;
    ret (CVExtNH l)
  else _ <- dumpN L ;; ret CVNone.

Definition decodeCapability : M cap :=
  code <- readByte ;; L <- readByte ;;
  v <- decodeCapValue code L ;;
  ret (mkCap code L v).

(* decodeCapabilities: `for read < length`, read uint8 *)
Fixpoint decodeCapabilities (fuel : nat) (length read : N) (acc : list cap) : M (list cap) :=
  match fuel with
  | O => nofuel
  | S f =>
    if read <? length then
      c <- decodeCapability ;;
      decodeCapabilities f length ((read + c_len c + 2) mod 256) (c :: acc)
    else ret (rev acc)
  end.

(* decodeOptParams: `for read < optParmLen`, read uint8 *)
Fixpoint decodeOptParams (fuel : nat) (optLen read : N) (acc : list optparam) : M (list optparam) :=
  match fuel with
  | O => nofuel
  | S f =>
    if read <? optLen then
      ty <- readByte ;; L <- readByte ;;
      let read := (read + 2) mod 256 in
      _ <- guard (ty =? 2) ;;
      caps <- decodeCapabilities fuel L 0 [] ;;
      let read := fold_left (fun r c => (r + c_len c + 2) mod 256) caps read in
      decodeOptParams f optLen read (mkOptParam ty L caps :: acc)
    else ret (rev acc)
  end.

Definition decodeOpen (fuel : nat) : M body :=
  version <- readByte ;; asn <- readU16 ;; hold <- readU16 ;; id <- readU32 ;; optLen <- readByte ;;
  _ <- guard (version =? 4) ;;                               (* validateOpen *)
  _ <- guard (negb (id =? 0)) ;;
  _ <- guard (negb ((hold =? 1) || (hold =? 2))) ;;
  params <- decodeOptParams fuel optLen 0 [] ;;
  ret (BOpen (mkOpen version asn hold id optLen params)).

(* ------------------------------------------------------------------ header, Decode *)

Fixpoint readMarker (n : nat) : M unit :=
  match n with
  | O => ret tt
  | S k => x <- readByte ;; _ <- guard (x =? 255) ;; readMarker k
  end.

Definition decodeHeader : M (N * N) :=
  _ <- readMarker 16 ;;
  l <- readU16 ;;
  ty <- readByte ;;
  _ <- guard (negb (l <? 19) && negb (4096 <? l)) ;;
  _ <- guard (negb (4 <? ty) && negb (ty =? 0)) ;;
  (* RFC 4271 6.1: OPEN >= 29, UPDATE >= 23, NOTIFICATION >= 21, KEEPALIVE = 19 *)
  _ <- guard (negb (((ty =? 1) && (l <? 29)) || ((ty =? 2) && (l <? 23)) ||
                    ((ty =? 3) && (l <? 21)) || ((ty =? 4) && negb (l =? 19)))) ;;
  ret (l, ty).

Definition decodeBody (fuel : nat) (o : options) (ty l : N) : M body :=
  if ty =? 1 then decodeOpen fuel
  else if ty =? 2 then u <- decodeUpdate fuel o l ;; ret (BUpdate u)
  else if ty =? 4 then ret BKeepalive
  else if ty =? 3 then decodeNotification
  else fail.

Definition decodeM (fuel : nat) (o : options) : M msg :=
  '(l, ty) <- decodeHeader ;;
  bd <- decodeBody fuel o ty (l - 19) ;;
  ret (mkMsg l ty bd).

(* packet.Decode on the byte string b: outcome and allocation count *)
Definition decode (fuel : nat) (o : options) (b : list N) : outcome msg * N := decodeM fuel o b 0.

Definition optionsOf (k : N) : options :=
  mkOpts (N.testbit k 0) (N.testbit k 1) (N.testbit k 2) (N.testbit k 3).

(* ------------------------------------------------------------------ canonical rendering
   (tokens compared with the harness' rendering of the Go structures) *)

Definition b2n (b : bool) : N := if b then 1 else 0.

Definition bytes32 (v : N) : list N := [v / 16777216 mod 256; v / 65536 mod 256; v / 256 mod 256; v mod 256].
Definition bytes64 (v : N) : list N := bytes32 (v / 4294967296) ++ bytes32 (v mod 4294967296).

Definition renderIP (a : ip) : list N :=
  match a with
  | IP4 v => 4 :: bytes32 v
  | IP6 hi lo => 6 :: bytes64 hi ++ bytes64 lo
  end.

Definition renderNLRI (n : nlri) : list N :=
  n_id n :: len (n_labels n) :: n_labels n ++ renderIP (p_ip (n_pfx n)) ++ [p_len (n_pfx n)].

Definition renderNLRIs (l : list nlri) : list N := len l :: flat_map renderNLRI l.

Definition renderAttrVal (v : attrval) : list N :=
  match v with
  | AVOrigin o => [1; o]
  | AVASPath segs => 2 :: len segs :: flat_map (fun s => fst s :: len (snd s) :: snd s) segs
  | AVNextHop a => 3 :: renderIP a
  | AVU32 x => [4; x]
  | AVAggregator a ad => [5; a; ad]
  | AVNone => [6]
  | AVComms l => 7 :: len l :: l
  | AVLarge l => 8 :: len l :: flat_map (fun t => [fst (fst t); snd (fst t); snd t]) l
  | AVCluster l => 9 :: len l :: l
  | AVMPReach afi safi nh nl => 10 :: afi :: safi :: renderIP nh ++ renderNLRIs nl
  | AVMPUnreach afi safi nl => 11 :: afi :: safi :: renderNLRIs nl
  | AVUnknown b => 12 :: len b :: b
  | AVNil => [13]
  end.

Definition renderAttr (a : attr) : list N :=
  (b2n (a_opt a) * 8 + b2n (a_trans a) * 4 + b2n (a_part a) * 2 + b2n (a_ext a))
    :: a_type a :: a_len a :: renderAttrVal (a_val a).

Definition renderTriples (l : list (N * N * N)) : list N :=
  len l :: flat_map (fun t => [fst (fst t); snd (fst t); snd t]) l.

Definition renderCap (c : cap) : list N :=
  c_code c :: c_len c ::
  match c_val c with
  | CVMP afi safi => [1; afi; safi]
  | CVAddPath l => 2 :: renderTriples l
  | CVASN4 a => [3; a]
  | CVRole r => [4; r]
  | CVExtNH l => 5 :: renderTriples l
  | CVNone => [0]
  end.

Definition renderParam (p : optparam) : list N :=
  o_type p :: o_len p :: len (o_caps p) :: flat_map renderCap (o_caps p).

Definition renderBody (b : body) : list N :=
  match b with
  | BOpen o => op_version o :: op_asn o :: op_hold o :: op_id o :: op_optlen o ::
               len (op_params o) :: flat_map renderParam (op_params o)
  | BUpdate u => u_wlen u :: renderNLRIs (u_withdrawn u) ++
                 u_tpal u :: len (u_attrs u) :: flat_map renderAttr (u_attrs u) ++
                 renderNLRIs (u_nlri u)
  | BKeepalive => []
  | BNotification c s => [c; s]
  end.

Definition renderMsg (m : msg) : list N := m_len m :: m_type m :: renderBody (m_body m).
