(* C27/C28: executable model of the BMP router session of bio-rd
     protocols/bgp/server/bmp_router.go           : serve, cleanup, processMsg and the per-type handlers
     protocols/bgp/server/bmp_neighbor_manager.go : addNeighbor, getNeighbor, neighborDown, disposeAll
     protocols/bgp/server/fsm_address_family.go   : bmpInit, bmpDispose
     routingtable/adjRIBIn (AddPath / RemovePath / Flush as used above), routingtable/locRIB
     (AddPath / RemovePath / Dispose towards registered clients), routingtable/vrf/vrf_registry.go.
   The BGP layer below is abstract (Section variables): decoding of an OPEN message and the
   decode + fsm_address_family.processUpdate of one BGP message carried by a route monitoring
   message, which yields the Adj-RIB-In AddPath / RemovePath calls in order.
   Tables are lists (multisets) of (source address, prefix, path id). No proofs here. *)
From Coq Require Import List NArith Bool.
Import ListNotations.
From BioVerif Require Import Model.BMPCodec.
Open Scope N_scope.

Definition prefix := (N * N)%type.              (* address, length *)
Definition src := (bool * N)%type.              (* IPv6?, address *)
Definition rkey := (prefix * N)%type.           (* prefix, path id *)
Definition entry := (src * prefix * N)%type.    (* source, prefix, path id *)
Definition nkey := (N * N)%type.                (* peer distinguisher, 16 byte peer address field *)

Definition prefix_eqb (a b : prefix) : bool := (fst a =? fst b) && (snd a =? snd b).
Definition src_eqb (a b : src) : bool := Bool.eqb (fst a) (fst b) && (snd a =? snd b).
Definition rkey_eqb (a b : rkey) : bool := prefix_eqb (fst a) (fst b) && (snd a =? snd b).
Definition entry_eqb (a b : entry) : bool :=
  src_eqb (fst (fst a)) (fst (fst b)) && prefix_eqb (snd (fst a)) (snd (fst b)) && (snd a =? snd b).
Definition nkey_eqb (a b : nkey) : bool := (fst a =? fst b) && (snd a =? snd b).

(* what processPeerUpNotification reads from an OPEN: My AS, BGP identifier, the ASN4 capabilities
   and the add-path capability tuples (AFI, SAFI, send/receive) in order of appearance *)
Record open_info := mk_open { o_asn : N; o_bgpid : N; o_asn4 : list N; o_addpath : list (N * N * N) }.

(* what AdjRIBIn.validatePath reads of an announced path: AS_PATH absent or without segments, all its
   ASNs, ORIGINATOR_ID (0 when absent), CLUSTER_LIST *)
Record pattrs := mk_pa { pa_empty : bool; pa_asns : list N; pa_originator : N; pa_clusters : list N }.

(* one Adj-RIB-In call issued by the update processing *)
Inductive uevent :=
| UAnn (v6 : bool) (p : prefix) (id : N) (a : pattrs)
| UWdr (v6 : bool) (p : prefix) (id : N).

Record cfg := mk_cfg { ignore_asns : list N; ignore_pre : bool; ignore_post : bool }.

Record nbr := mk_nbr {
  n_vrf : N; n_addr : N; n_src : src; n_as : N; n_localas : N;
  n_ap4 : bool; n_ap6 : bool; n_asn4 : bool;
  n_rid : N;                         (* session attribute RouterID: BGP identifier of the sent OPEN *)
  n_rib4 : list rkey; n_rib6 : list rkey }.

Inductive oevent := OAdd (e : entry) | ORemove (e : entry) | OEndOfRIB | ODispose.

Record vrf := mk_vrf { v_rd : N; v_t4 : list entry; v_t6 : list entry; v_obs4 : list N; v_obs6 : list N }.

Record rstate := mk_r {
  r_nbrs : list nbr;
  r_ignored : list src;              (* Router.ignoredPeers: keyed by address only *)
  r_vrfs : list vrf;
  r_counters : list N;               (* per BMP message type 0..6 *)
  r_name : bytes;
  r_closed : bool;                   (* r.con.Close() was called *)
  r_log : list (N * oevent) }.       (* what registered observers were told, newest first *)

Definition init : rstate := mk_r [] [] [] [0; 0; 0; 0; 0; 0; 0] [] false [].

Definition set_nbrs (l : list nbr) (s : rstate) : rstate :=
  mk_r l (r_ignored s) (r_vrfs s) (r_counters s) (r_name s) (r_closed s) (r_log s).
Definition set_ignored (l : list src) (s : rstate) : rstate :=
  mk_r (r_nbrs s) l (r_vrfs s) (r_counters s) (r_name s) (r_closed s) (r_log s).
Definition set_vrfs (l : list vrf) (s : rstate) : rstate :=
  mk_r (r_nbrs s) (r_ignored s) l (r_counters s) (r_name s) (r_closed s) (r_log s).
Definition set_counters (l : list N) (s : rstate) : rstate :=
  mk_r (r_nbrs s) (r_ignored s) (r_vrfs s) l (r_name s) (r_closed s) (r_log s).
Definition set_name (b : bytes) (s : rstate) : rstate :=
  mk_r (r_nbrs s) (r_ignored s) (r_vrfs s) (r_counters s) b (r_closed s) (r_log s).
Definition set_closed (b : bool) (s : rstate) : rstate :=
  mk_r (r_nbrs s) (r_ignored s) (r_vrfs s) (r_counters s) (r_name s) b (r_log s).
Definition set_log (l : list (N * oevent)) (s : rstate) : rstate :=
  mk_r (r_nbrs s) (r_ignored s) (r_vrfs s) (r_counters s) (r_name s) (r_closed s) l.

Fixpoint bump_at (i : nat) (l : list N) : list N :=
  match l, i with
  | [], _ => []
  | x :: r, O => (x + 1) :: r
  | x :: r, S j => x :: bump_at j r
  end.
Definition bump (i : nat) (s : rstate) : rstate := set_counters (bump_at i (r_counters s)) s.

(* ------------------------------------------------------------------ VRF tables (Loc-RIBs) *)

Definition tab (v6 : bool) (v : vrf) : list entry := if v6 then v_t6 v else v_t4 v.
Definition obs (v6 : bool) (v : vrf) : list N := if v6 then v_obs6 v else v_obs4 v.
Definition set_tab (v6 : bool) (t : list entry) (v : vrf) : vrf :=
  if v6 then mk_vrf (v_rd v) (v_t4 v) t (v_obs4 v) (v_obs6 v)
  else mk_vrf (v_rd v) t (v_t6 v) (v_obs4 v) (v_obs6 v).
Definition set_obs (v6 : bool) (o : list N) (v : vrf) : vrf :=
  if v6 then mk_vrf (v_rd v) (v_t4 v) (v_t6 v) (v_obs4 v) o
  else mk_vrf (v_rd v) (v_t4 v) (v_t6 v) o (v_obs6 v).

Fixpoint find_vrf (rd : N) (vs : list vrf) : option vrf :=
  match vs with
  | [] => None
  | v :: r => if v_rd v =? rd then Some v else find_vrf rd r
  end.

(* replace the VRF with the same route distinguisher *)
Fixpoint put_vrf (v : vrf) (vs : list vrf) : list vrf :=
  match vs with
  | [] => []
  | x :: r => if v_rd x =? v_rd v then v :: r else x :: put_vrf v r
  end.

(* VRFRegistry.CreateVRFIfNotExists *)
Definition create_vrf (rd : N) (s : rstate) : rstate :=
  match find_vrf rd (r_vrfs s) with
  | Some _ => s
  | None => set_vrfs (r_vrfs s ++ [mk_vrf rd [] [] [] []]) s
  end.

Fixpoint mem_entry (e : entry) (t : list entry) : bool :=
  match t with [] => false | x :: r => entry_eqb x e || mem_entry e r end.

Fixpoint remove1 (e : entry) (t : list entry) : list entry :=
  match t with
  | [] => []
  | x :: r => if entry_eqb x e then r else x :: remove1 e r
  end.

Definition tell (os : list N) (ev : oevent) (log : list (N * oevent)) : list (N * oevent) :=
  map (fun o => (o, ev)) os ++ log.

(* LocRIB.AddPath: the path is stored, every registered client is told *)
Definition loc_add (rd : N) (v6 : bool) (e : entry) (s : rstate) : rstate :=
  match find_vrf rd (r_vrfs s) with
  | None => s
  | Some v =>
    set_log (tell (obs v6 v) (OAdd e) (r_log s))
      (set_vrfs (put_vrf (set_tab v6 (e :: tab v6 v) v) (r_vrfs s)) s)
  end.

(* LocRIB.RemovePath: nothing happens (and nobody is told) when the path is not there *)
Definition loc_remove (rd : N) (v6 : bool) (e : entry) (s : rstate) : rstate :=
  match find_vrf rd (r_vrfs s) with
  | None => s
  | Some v =>
    if mem_entry e (tab v6 v) then
      set_log (tell (obs v6 v) (ORemove e) (r_log s))
        (set_vrfs (put_vrf (set_tab v6 (remove1 e (tab v6 v)) v) (r_vrfs s)) s)
    else s
  end.

(* ------------------------------------------------------------------ neighbors and their Adj-RIB-Ins *)

Definition key_of (n : nbr) : nkey := (n_vrf n, n_addr n).
Definition rib_of (v6 : bool) (n : nbr) : list rkey := if v6 then n_rib6 n else n_rib4 n.
Definition ap_of (v6 : bool) (n : nbr) : bool := if v6 then n_ap6 n else n_ap4 n.
Definition set_rib (v6 : bool) (r : list rkey) (n : nbr) : nbr :=
  if v6 then mk_nbr (n_vrf n) (n_addr n) (n_src n) (n_as n) (n_localas n) (n_ap4 n) (n_ap6 n) (n_asn4 n) (n_rid n) (n_rib4 n) r
  else mk_nbr (n_vrf n) (n_addr n) (n_src n) (n_as n) (n_localas n) (n_ap4 n) (n_ap6 n) (n_asn4 n) (n_rid n) r (n_rib6 n).

(* neighborManager.getNeighbor: first match *)
Fixpoint find_nbr (k : nkey) (l : list nbr) : option nbr :=
  match l with
  | [] => None
  | n :: r => if nkey_eqb (key_of n) k then Some n else find_nbr k r
  end.

Fixpoint put_nbr (n : nbr) (l : list nbr) : list nbr :=
  match l with
  | [] => []
  | x :: r => if nkey_eqb (key_of x) (key_of n) then n :: r else x :: put_nbr n r
  end.

(* remove the first neighbor with that key *)
Fixpoint del_nbr (k : nkey) (l : list nbr) : list nbr :=
  match l with
  | [] => []
  | x :: r => if nkey_eqb (key_of x) k then r else x :: del_nbr k r
  end.

(* which stored paths an AddPath replaces / a RemovePath removes: all paths of the prefix, or,
   on an add-path session, those with the same path identifier *)
Definition hits (ap : bool) (p : prefix) (id : N) (x : rkey) : bool :=
  prefix_eqb (fst x) p && (negb ap || (snd x =? id)).

Definition tag (s : src) (x : rkey) : entry := (s, fst x, snd x).

Definition loc_remove_all (rd : N) (v6 : bool) (s : src) (xs : list rkey) (st : rstate) : rstate :=
  fold_left (fun acc x => loc_remove rd v6 (tag s x) acc) xs st.

(* AdjRIBIn.AddPath (isann) / AdjRIBIn.RemovePath on the neighbor's Adj-RIB-In of that family,
   with the Loc-RIB of the neighbor's VRF as registered client *)
Definition rib_op (n : nbr) (isann v6 : bool) (p : prefix) (id : N) (st : rstate) : rstate :=
  let ap := ap_of v6 n in
  let rib := rib_of v6 n in
  let gone := filter (hits ap p id) rib in
  let kept := filter (fun x => negb (hits ap p id x)) rib in
  let rib' := if isann then kept ++ [(p, id)] else kept in
  let st1 := loc_remove_all (n_vrf n) v6 (n_src n) gone st in
  let st2 := if isann then loc_add (n_vrf n) v6 (tag (n_src n) (p, id)) st1 else st1 in
  set_nbrs (put_nbr (set_rib v6 rib' n) (r_nbrs st2)) st2.

(* The contributing ASNs / cluster ids of the VRF the Adj-RIB-In validates against. The VRFs of a BMP
   router never have any: VRFRegistry.CreateVRFIfNotExists creates them without, bmpInit adds none
   (unlike fsmAddressFamily.init of a real session), and the RemoveContributingASN of bmpDispose
   finds nothing to remove (refcounter.Remove of an absent value does nothing). *)
Definition bmp_contributing_asns : list N := [].
Definition bmp_contributing_cluster_ids : list N := [].

(* AdjRIBIn.validatePath <> HiddenReasonNone: eBGP without AS_PATH, one of our ASNs in the path, our
   router id as ORIGINATOR_ID, one of our cluster ids in the CLUSTER_LIST. (The OTC check needs peer
   roles, which a monitored peer's pseudo session never has enabled.) *)
Definition hidden_path (ibgp : bool) (rid : N) (casns ccids : list N) (a : pattrs) : bool :=
  (negb ibgp && pa_empty a) ||
  existsb (fun x => existsb (N.eqb x) casns) (pa_asns a) ||
  (pa_originator a =? rid) ||
  existsb (fun x => existsb (N.eqb x) ccids) (pa_clusters a).

Definition nbr_ibgp (n : nbr) : bool := n_localas n =? n_as n.

(* A hidden path is stored in the Adj-RIB-In (replacing what an AddPath replaces) but no client is
   told about it and it takes part in no later client update: for the part of the Adj-RIB-In the
   clients see - which is what n_rib4 / n_rib6 hold - announcing it acts like a withdrawal. *)
Definition apply_event (k : nkey) (ev : uevent) (st : rstate) : rstate :=
  match find_nbr k (r_nbrs st) with
  | None => st
  | Some n =>
    match ev with
    | UAnn v6 p id a =>
      let hid := hidden_path (nbr_ibgp n) (n_rid n) bmp_contributing_asns bmp_contributing_cluster_ids a in
      rib_op n (negb hid) v6 p id st
    | UWdr v6 p id => rib_op n false v6 p id st
    end
  end.

(* fsmAddressFamily.bmpDispose for IPv4 then IPv6: Flush (every stored path is removed from the
   Loc-RIB), Unregister *)
Definition dispose_nbr (n : nbr) (st : rstate) : rstate :=
  loc_remove_all (n_vrf n) true (n_src n) (n_rib6 n)
    (loc_remove_all (n_vrf n) false (n_src n) (n_rib4 n) st).

(* neighborManager.neighborDown *)
Definition neighbor_down (k : nkey) (st : rstate) : rstate :=
  match find_nbr k (r_nbrs st) with
  | None => st
  | Some n => let st1 := dispose_nbr n st in set_nbrs (del_nbr k (r_nbrs st1)) st1
  end.

(* neighborManager.disposeAll *)
Definition dispose_all (st : rstate) : rstate :=
  set_nbrs [] (fold_left (fun acc n => dispose_nbr n acc) (r_nbrs st) st).

(* VRFRegistry.DisposeAll: every client of every Loc-RIB gets Dispose(), the VRFs are dropped *)
Definition dispose_vrfs (st : rstate) : rstate :=
  let told := fold_left (fun log v => tell (obs true v) ODispose (tell (obs false v) ODispose log))
                        (r_vrfs st) (r_log st) in
  set_log told (set_vrfs [] st).

(* Router.cleanup *)
Definition cleanup (st : rstate) : rstate := dispose_all (dispose_vrfs st).

(* a client registering on a Loc-RIB (as the RIS server's ObserveRIB does): it is sent the current
   content, then EndOfRIB *)
Definition observe (id rd : N) (v6 : bool) (st : rstate) : rstate :=
  match find_vrf rd (r_vrfs st) with
  | None => st
  | Some v =>
    let dump := map (fun e => (id, OAdd e)) (tab v6 v) in
    set_log ((id, OEndOfRIB) :: rev dump ++ r_log st)
      (set_vrfs (put_vrf (set_obs v6 (id :: obs v6 v) v) (r_vrfs st)) st)
  end.

(* ------------------------------------------------------------------ message handlers *)

Definition two32r : N := 4294967296.

(* peerAddrToBNetAddr *)
Definition src_of (h : pph) : src :=
  if flag_v h then (true, p_addr h) else (false, p_addr h mod two32r).

Fixpoint mem_src (s : src) (l : list src) : bool :=
  match l with [] => false | x :: r => src_eqb x s || mem_src s r end.
Definition del_src (s : src) (l : list src) : list src := filter (fun x => negb (src_eqb x s)) l.

Definition as_trans : N := 23456.

(* My AS of an OPEN: an ASN4 capability replaces AS_TRANS *)
Definition asn_of_open (o : open_info) : N :=
  fold_left (fun asn a4 => if asn =? as_trans then a4 else asn) (o_asn4 o) (o_asn o).

(* the local side announced add-path receive for the family (configureBySentOpen) *)
Definition sent_rx (o : open_info) (afi : N) : bool :=
  existsb (fun t => match t with (a, s, sr) => (a =? afi) && (s =? 1) && ((sr =? 1) || (sr =? 3)) end)
          (o_addpath o).
(* and the peer announced add-path send (processAddPathCapability) *)
Definition rcvd_tx (o : open_info) (afi : N) : bool :=
  existsb (fun t => match t with (a, s, sr) => (a =? afi) && (s =? 1) && ((sr =? 2) || (sr =? 3)) end)
          (o_addpath o).
Definition addpath_rx (so ro : open_info) (afi : N) : bool := sent_rx so afi && rcvd_tx ro afi.

Inductive outcome := POk | PPanic.

Section Router.
Variable open_decode : bytes -> option open_info.
Variable upd_apply : bool -> bool -> bool -> bytes -> list uevent.
Variable c : cfg.

Definition ignored_asn (a : N) : bool := existsb (N.eqb a) (ignore_asns c).

(* Router.processPeerUpNotification *)
Definition peer_up (h : pph) (sent rcvd : bytes) (st0 : rstate) : rstate :=
  let st := bump 3 st0 in
  let s := src_of h in
  if ignored_asn (p_as h) then
    (if mem_src s (r_ignored st) then st else set_ignored (s :: r_ignored st) st)
  else
    match open_decode sent with
    | None => st
    | Some so =>
      match open_decode rcvd with
      | None => st
      | Some ro =>
        if negb (asn_of_open ro =? p_as h) then st
        else
          let st1 := create_vrf (p_rd h) st in
          let n := mk_nbr (p_rd h) (p_addr h) s (p_as h) (asn_of_open so)
                     (addpath_rx so ro 1) (addpath_rx so ro 2)
                     (negb (len (o_asn4 ro) =? 0)) (o_bgpid so) [] [] in
          match find_nbr (p_rd h, p_addr h) (r_nbrs st1) with
          | Some _ => st1                                   (* addNeighbor: exists *)
          | None => set_nbrs (r_nbrs st1 ++ [n]) st1
          end
      end
    end.

(* Router.processPeerDownNotification *)
Definition peer_down (h : pph) (st0 : rstate) : rstate :=
  let st := bump 2 st0 in
  let s := src_of h in
  if mem_src s (r_ignored st) then set_ignored (del_src s (r_ignored st)) st
  else neighbor_down (p_rd h, p_addr h) st.

(* Router.processInitiationMsg: the last sysName TLV names the router *)
Definition initiation (ts : list tlv) (st0 : rstate) : rstate :=
  fold_left (fun acc t => if t_type t =? 2 then set_name (t_info t) acc else acc) ts (bump 4 st0).

(* b[:n] on a slice whose capacity is its length *)
Definition slice_to_panics (n : N) (b : bytes) : bool := len b <? n.

Fixpoint term_tlvs_panic (ts : list tlv) : bool :=
  match ts with
  | [] => false
  | t :: r =>
    if t_type t =? 1 then
      if len (t_info t) <? 2 then term_tlvs_panic r
      else if slice_to_panics 2 (t_info t) then true else term_tlvs_panic r
    else term_tlvs_panic r
  end.

(* Router.processTerminationMsg *)
Definition termination (ts : list tlv) (st0 : rstate) : outcome * rstate :=
  let st := bump 5 st0 in
  if term_tlvs_panic ts then (PPanic, st)
  else (POk, dispose_all (set_closed true st)).

(* Router.processRouteMonitoringMsg *)
Definition route_monitoring (h : pph) (upd : bytes) (st0 : rstate) : rstate :=
  let st := bump 0 st0 in
  if (ignore_pre c && negb (flag_l h)) || (ignore_post c && flag_l h) then st
  else if mem_src (src_of h) (r_ignored st) then st
  else
    match find_nbr (p_rd h, p_addr h) (r_nbrs st) with
    | None => st
    | Some n =>
      let evs := upd_apply (n_ap4 n) (n_ap6 n) (negb (flag_a h)) upd in
      fold_left (fun acc ev => apply_event (p_rd h, p_addr h) ev acc) evs st
    end.

Definition process_msg (st : rstate) (m : bmp_msg) : outcome * rstate :=
  match m with
  | MPeerUp h _ _ _ sent rcvd _ => (POk, peer_up h sent rcvd st)
  | MPeerDown h _ _ => (POk, peer_down h st)
  | MInit ts => (POk, initiation ts st)
  | MTerm ts => termination ts st
  | MRouteMon h upd => (POk, route_monitoring h upd st)
  | MMirror _ _ => (POk, bump 6 st)
  | MStats _ _ _ => (POk, st)
  end.

(* Router.processMsg; the N is the BMP layer's allocation cost *)
Definition process (st : rstate) (msg : bytes) : outcome * rstate * N :=
  match decode msg with
  | (Ok m, k) => (process_msg st m, k)
  | (Err, k) => (POk, st, k)
  | (Panic, k) => (PPanic, st, k)
  | (Fuel, k) => (PPanic, st, k)
  end.

(* ------------------------------------------------------------------ Router.serve *)

Inductive serve_res :=
| SDone (st : rstate) (cost : N) (frames : N)
| SPanic (cost : N) (frames : N)
| SFuel.

(* final = true: Router.serve on a connection that delivers s and then EOF.
   final = false: the same loop, stopping (without cleanup) when the delivered bytes are used up
   (more may follow). *)
Fixpoint run_stream (fuel : nat) (final : bool) (st : rstate) (s : bytes) (cost frames : N) : serve_res :=
  match fuel with
  | O => SFuel
  | S f =>
    if r_closed st then SDone (cleanup st) (cost + default_buffer_len) frames
    else if negb final && (len s =? 0) then SDone st cost frames
    else
      match recv s with
      | RMsg m rest k =>
        match process st m with
        | (POk, st', k2) => run_stream f final st' rest (cost + k + k2) (frames + 1)
        | (PPanic, _, k2) => SPanic (cost + k + k2) frames
        end
      | RFail k => SDone (cleanup st) (cost + k) frames
      | RPanic k => SPanic (cost + k) frames
      | RFuel => SFuel
      end
  end.

Definition serve (st : rstate) (s : bytes) : serve_res := run_stream (S (length s)) true st s 0 0.

(* ------------------------------------------------------------------ histories (C28) *)

Inductive action :=
| AFrame (f : bytes)                    (* bytes arriving on the connection *)
| AObserve (id rd : N) (v6 : bool)      (* a client registers on a VRF's Loc-RIB *)
| AConnLoss.                            (* the connection is lost; a later frame arrives on a new one *)

Definition step (st : rstate) (a : action) : serve_res :=
  match a with
  | AFrame f => run_stream (S (length f)) false st f 0 0
  | AObserve id rd v6 => SDone (observe id rd v6 st) 0 0
  | AConnLoss => SDone (set_closed false (cleanup st)) 0 0
  end.

Fixpoint run (st : rstate) (acts : list action) : option rstate :=
  match acts with
  | [] => Some st
  | a :: r =>
    match step st a with
    | SDone st' _ _ => run st' r
    | _ => None
    end
  end.

End Router.

(* ------------------------------------------------------------------ observables *)

Definition table (st : rstate) (rd : N) (v6 : bool) : list entry :=
  match find_vrf rd (r_vrfs st) with Some v => tab v6 v | None => [] end.

(* what an observer has been told, as a multiset: adds minus removes, oldest event first *)
Definition view_step (id : N) (acc : list entry) (x : N * oevent) : list entry :=
  if fst x =? id then
    match snd x with
    | OAdd e => e :: acc
    | ORemove e => remove1 e acc
    | _ => acc
    end
  else acc.
Definition view (id : N) (log : list (N * oevent)) : list entry :=
  fold_left (view_step id) (rev log) [].

Definition disposed (id : N) (log : list (N * oevent)) : bool :=
  existsb (fun x => (fst x =? id) && match snd x with ODispose => true | _ => false end) log.
