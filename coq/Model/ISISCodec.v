(* C30: executable model of protocols/isis/packet (IS-IS PDU codec), byte level.

   A byte string is a [list N]; Go's *bytes.Buffer is the list of unread bytes.
   Two reader disciplines exist in the Go code and both are modelled literally:
     - util/decode.Decode = binary.Read per field = io.ReadFull: all bytes of the field or an
       error ([rd_u8], [rd_u16], [rd_u32], [rd_bytes]);
     - bytes.Buffer.Read(p): copies min(len p, unread) bytes, error only when p is non-empty and
       nothing is unread ([buf_read]); bytes.Buffer.ReadByte ([rd_u8]).
   uint8 / uint16 arithmetic of the Go code that can wrap is written with explicit [mod].
   Loops of the decoders run on explicit fuel ([OutOfFuel] is excluded by C30_fuel_suffices).
   [Panic] marks the places where the Go runtime would panic (index / slice out of range).
   Errors are one outcome [Err] (the texts of Go errors are not part of the property).

   Not modelled: ISISHeader/LLC semantics beyond their bytes; Copy() methods; String();
   readExtendedIPReachabilityTLV / readTrafficEngineeringRouterIDTLV (dead code: readTLV never
   dispatches to them, types 135/134/22/2/8 are decoded by readUnknownTLV). *)
From Coq Require Import List NArith ZArith Bool Arith.
Import ListNotations.
Open Scope N_scope.

(* ------------------------------------------------------------------ outcomes *)

Inductive res (A : Type) : Type :=
| Ok (a : A)
| Err
| Panic
| OutOfFuel.
Arguments Ok {A} a.
Arguments Err {A}.
Arguments Panic {A}.
Arguments OutOfFuel {A}.

Definition bind {A B : Type} (r : res A) (k : A -> res B) : res B :=
  match r with
  | Ok a => k a
  | Err => Err
  | Panic => Panic
  | OutOfFuel => OutOfFuel
  end.

Notation "'do' x <- e ; k" := (bind e (fun x => k))
  (at level 200, x name, e at level 100, k at level 200, right associativity).
Notation "'do' ( x , y ) <- e ; k" := (bind e (fun p => let '(x, y) := p in k))
  (at level 200, x name, y name, e at level 100, k at level 200, right associativity).
Notation "'do' ( x , y , z ) <- e ; k" := (bind e (fun p => let '(x, y, z) := p in k))
  (at level 200, x name, y name, z name, e at level 100, k at level 200, right associativity).

(* ------------------------------------------------------------------ readers *)

Definition buf := list N.

(* decode.Decode(&uint8) and bytes.Buffer.ReadByte *)
Definition rd_u8 (b : buf) : res (N * buf) :=
  match b with
  | x :: r => Ok (x, r)
  | [] => Err
  end.

Definition rd_u16 (b : buf) : res (N * buf) :=
  match b with
  | x1 :: x0 :: r => Ok (x1 * 256 + x0, r)
  | _ => Err
  end.

Definition rd_u32 (b : buf) : res (N * buf) :=
  match b with
  | x3 :: x2 :: x1 :: x0 :: r => Ok (((x3 * 256 + x2) * 256 + x1) * 256 + x0, r)
  | _ => Err
  end.

(* decode.Decode into a fixed size byte array / a byte slice of length n (io.ReadFull) *)
Definition rd_bytes (n : nat) (b : buf) : res (list N * buf) :=
  if (n <=? length b)%nat then Ok (firstn n b, skipn n b) else Err.

(* p := make([]byte, n); k, err := buf.Read(p)   -- returns (p, k, rest) *)
Definition buf_read (n : nat) (b : buf) : res (list N * nat * buf) :=
  match b with
  | [] => if (n =? 0)%nat then Ok ([], 0%nat, []) else Err
  | _ => let k := Nat.min n (length b) in
         Ok (firstn k b ++ repeat 0 (n - k), k, skipn k b)
  end.

(* ------------------------------------------------------------------ writers *)

Definition be16 (x : N) : list N := [x / 256 mod 256; x mod 256].
Definition be32 (x : N) : list N :=
  [x / 16777216 mod 256; x / 65536 mod 256; x / 256 mod 256; x mod 256].

(* ------------------------------------------------------------------ data *)

(* LSPID = SystemID(6) PseudonodeID(1) LSPNumber(1) as 8 bytes; SourceID = SystemID(6) CircuitID(1) as 7 bytes *)
Record lspentry := mkEntry { le_life : N; le_id : list N; le_seq : N; le_csum : N }.

(* TLVs that appear as sub-TLVs (extended IS / IP reachability) *)
Inductive subtlv :=
| SLinkLR (ty len loc rem : N)            (* LinkLocalRemoteIdentifiersSubTLV *)
| SIPv4 (ty len addr : N)                 (* IPv4AddressSubTLV *)
| SRaw (ty len : N) (v : list N).         (* any other TLV, by the bytes its Serialize writes after type/len *)

Record extisnbr := mkExtIsNbr { xn_id : list N; xn_metric : N; xn_sublen : N; xn_subs : list subtlv }.
Record extipreach := mkExtIp { xp_metric : N; xp_udpfx : N; xp_addr : N; xp_subs : list subtlv }.

Inductive tlv :=
| TArea (ty len : N) (areas : list (list N))                      (* AreaAddressesTLV, 1 *)
| TChecksum (ty len cs : N)                                       (* ChecksumTLV, 12 *)
| TDynHost (ty len : N) (name : list N)                           (* DynamicHostNameTLV, 137 *)
| TProto (ty len : N) (ids : list N)                              (* ProtocolsSupportedTLV, 129 *)
| TIPIf (ty len : N) (addrs : list N)                             (* IPInterfaceAddressesTLV, 132 *)
| TP2PAdj (ty len st ecid : N) (nsys : list N) (necid : N)        (* P2PAdjacencyStateTLV, 240 *)
| TISNbr (ty len : N) (snpa : list N)                             (* ISNeighborsTLV, 6 *)
| TEntries (ty len : N) (es : list lspentry)                      (* LSPEntriesTLV, 9 *)
| TUnknown (ty len : N) (v : list N)                              (* UnknownTLV *)
(* the remaining TLV structs can be serialized but readTLV has no case for them
   (ISReachabilityTLV has a Serialize method but no Copy method: it is not a packet.TLV and cannot be part of a PDU) *)
| TPadding (ty len : N) (d : list N)                              (* PaddingTLV, 8 *)
| TExtIS (ty len : N) (ns : list extisnbr)                        (* ExtendedISReachabilityTLV, 22 *)
| TExtIP (ty len : N) (rs : list extipreach)                      (* ExtendedIPReachabilityTLV, 135 *)
| TTERid (ty len addr : N).                                       (* TrafficEngineeringRouterIDTLV, 134 *)

Definition tlv_type (t : tlv) : N :=
  match t with
  | TArea ty _ _ | TChecksum ty _ _ | TDynHost ty _ _ | TProto ty _ _ | TIPIf ty _ _
  | TP2PAdj ty _ _ _ _ _ | TISNbr ty _ _ | TEntries ty _ _ | TUnknown ty _ _ | TPadding ty _ _
  | TExtIS ty _ _ | TExtIP ty _ _ | TTERid ty _ _ => ty
  end.

Definition tlv_len (t : tlv) : N :=
  match t with
  | TArea _ l _ | TChecksum _ l _ | TDynHost _ l _ | TProto _ l _ | TIPIf _ l _
  | TP2PAdj _ l _ _ _ _ | TISNbr _ l _ | TEntries _ l _ | TUnknown _ l _ | TPadding _ l _
  | TExtIS _ l _ | TExtIP _ l _ | TTERid _ l _ => l
  end.

Record header := mkHeader {
  h_pd : N; h_li : N; h_pie : N; h_idlen : N; h_type : N; h_ver : N; h_maxarea : N }.

Record hello := mkHello {
  hl_ct : N; hl_sys : list N; hl_hold : N; hl_len : N; hl_lcid : N; hl_tlvs : list tlv }.

Record l2hello := mkL2Hello {
  l2_ct : N; l2_sys : list N; l2_hold : N; l2_len : N; l2_prio : N; l2_dis : list N; l2_tlvs : list tlv }.

Record lsp := mkLsp {
  ls_len : N; ls_life : N; ls_id : list N; ls_seq : N; ls_csum : N; ls_tb : N; ls_tlvs : list tlv }.

Record csnp := mkCsnp {
  cs_len : N; cs_src : list N; cs_start : list N; cs_end : list N; cs_tlvs : list tlv }.

Record psnp := mkPsnp { ps_len : N; ps_src : list N; ps_tlvs : list tlv }.

Inductive body :=
| BNone                      (* PDU types packet.Decode has no case for: header only *)
| BHello (x : hello)
| BLsp (x : lsp)
| BCsnp (x : csnp)
| BPsnp (x : psnp).

Record packet := mkPacket { p_hdr : header; p_body : body }.

(* ------------------------------------------------------------------ TLV decoders *)

Definition zero6 : list N := [0; 0; 0; 0; 0; 0].

(* readAreaAddressesTLV: for read < tlvLength { areaLen := ReadByte; read++; buf.Read(make(areaLen)); read += areaLen } *)
Fixpoint area_loop (fuel : nat) (read tlen : N) (b : buf) : res (list (list N) * buf) :=
  match fuel with
  | O => OutOfFuel
  | S f =>
    if read <? tlen then
      do (alen, b1) <- rd_u8 b;
      do (area, _, b2) <- buf_read (N.to_nat alen) b1;
      do (rest, b3) <- area_loop f ((read + 1 + alen) mod 256) tlen b2;
      Ok (area :: rest, b3)
    else Ok ([], b)
  end.

Definition rd_entry (b : buf) : res (lspentry * buf) :=
  do (life, b1) <- rd_u16 b;
  do (id, b2) <- rd_bytes 8 b1;
  do (seq, b3) <- rd_u32 b2;
  do (cs, b4) <- rd_u16 b3;
  Ok (mkEntry life id seq cs, b4).

(* readLSPEntriesTLV: toRead := tlvLength; for toRead > 0 { decodeLSPEntry; toRead -= 16 }  (uint8) *)
Fixpoint entries_loop (fuel : nat) (toread : N) (b : buf) : res (list lspentry * buf) :=
  match fuel with
  | O => OutOfFuel
  | S f =>
    if 0 <? toread then
      do (e, b1) <- rd_entry b;
      do (rest, b2) <- entries_loop f ((toread + 256 - 16) mod 256) b1;
      Ok (e :: rest, b2)
    else Ok ([], b)
  end.

(* a[i] = v with Go's bounds check *)
Fixpoint upd (l : list N) (i : nat) (v : N) : option (list N) :=
  match l, i with
  | [], _ => None
  | _ :: r, O => Some (v :: r)
  | x :: r, S j => match upd r j v with Some r' => Some (x :: r') | None => None end
  end.

(* readProtocolsSupportedTLV: ids := make([]uint8, tlvLength); for i := 0; i < tlvLength; i++ { read protoID; ids[i] = protoID } *)
Fixpoint proto_loop (n i : nat) (arr : list N) (b : buf) : res (list N * buf) :=
  match n with
  | O => Ok (arr, b)
  | S n' =>
    do (x, b1) <- rd_u8 b;
    match upd arr i x with
    | None => Panic
    | Some arr' => proto_loop n' (S i) arr' b1
    end
  end.

(* readIPInterfaceAddressesTLV: tlvLength/4 uint32 fields *)
Fixpoint rd_u32s (n : nat) (b : buf) : res (list N * buf) :=
  match n with
  | O => Ok ([], b)
  | S n' =>
    do (x, b1) <- rd_u32 b;
    do (xs, b2) <- rd_u32s n' b1;
    Ok (x :: xs, b2)
  end.

Definition read_p2padj (ty len : N) (b : buf) : res (tlv * buf) :=
  if len =? 5 then
    do (st, b1) <- rd_u8 b;
    do (ecid, b2) <- rd_u32 b1;
    Ok (TP2PAdj ty len st ecid zero6 0, b2)
  else if len =? 15 then
    do (st, b1) <- rd_u8 b;
    do (ecid, b2) <- rd_u32 b1;
    do (nsys, b3) <- rd_bytes 6 b2;
    do (necid, b4) <- rd_u32 b3;
    Ok (TP2PAdj ty len st ecid nsys necid, b4)
  else Ok (TP2PAdj ty len 0 0 zero6 0, b).     (* no field is read at all *)

Definition read_unknown (ty len : N) (b : buf) : res (tlv * buf) :=
  do (v, k, b1) <- buf_read (N.to_nat len) b;
  if (k =? N.to_nat len)%nat then Ok (TUnknown ty len v, b1) else Err.

Inductive kind := KDynHost | KChecksum | KProto | KIPIf | KArea | KP2PAdj | KISNbr | KEntries | KUnknown.

(* the switch of readTLV *)
Definition kind_of (ty : N) : kind :=
  match ty with
  | 137 => KDynHost
  | 12 => KChecksum
  | 129 => KProto
  | 132 => KIPIf
  | 1 => KArea
  | 240 => KP2PAdj
  | 6 => KISNbr
  | 9 => KEntries
  | _ => KUnknown
  end.

Definition read_tlv (fuel : nat) (b : buf) : res (tlv * buf) :=
  do (ty, b1) <- rd_u8 b;
  do (len, b2) <- rd_u8 b1;
  match kind_of ty with
  | KDynHost => do (nm, b3) <- rd_bytes (N.to_nat len) b2; Ok (TDynHost ty len nm, b3)
  | KChecksum => do (cs, b3) <- rd_u16 b2; Ok (TChecksum ty len cs, b3)
  | KProto =>
    do (ids, b3) <- proto_loop (N.to_nat len) 0 (repeat 0 (N.to_nat len)) b2;
    Ok (TProto ty len ids, b3)
  | KIPIf => do (addrs, b3) <- rd_u32s (N.to_nat (len / 4)) b2; Ok (TIPIf ty len addrs, b3)
  | KArea => do (areas, b3) <- area_loop fuel 0 len b2; Ok (TArea ty len areas, b3)
  | KP2PAdj => read_p2padj ty len b2
  | KISNbr => do (snpa, b3) <- rd_bytes 6 b2; Ok (TISNbr ty len snpa, b3)
  | KEntries => do (es, b3) <- entries_loop fuel len b2; Ok (TEntries ty len es, b3)
  | KUnknown => read_unknown ty len b2
  end.

(* readTLVs: for buf.Len() > 0 { readTLV } *)
Fixpoint read_tlvs (fuel : nat) (b : buf) : res (list tlv) :=
  match fuel with
  | O => OutOfFuel
  | S f =>
    match b with
    | [] => Ok []
    | _ =>
      do (t, b1) <- read_tlv f b;
      do ts <- read_tlvs f b1;
      Ok (t :: ts)
    end
  end.

(* ------------------------------------------------------------------ PDU decoders *)

(* DecodeHeader: dsap, ssap, cf (LLC), then the 8 header bytes (the reserved one is dropped) *)
Definition decode_header (b : buf) : res (header * buf) :=
  match b with
  | _ :: _ :: _ :: pd :: li :: pie :: idl :: ty :: ver :: _ :: maxa :: r =>
    Ok (mkHeader pd li pie idl ty ver maxa, r)
  | _ => Err
  end.

Definition decode_p2p_hello (fuel : nat) (b : buf) : res hello :=
  do (ct, b1) <- rd_u8 b;
  do (sys, b2) <- rd_bytes 6 b1;
  do (hold, b3) <- rd_u16 b2;
  do (len, b4) <- rd_u16 b3;
  do (lcid, b5) <- rd_u8 b4;
  do ts <- read_tlvs fuel b5;
  Ok (mkHello ct sys hold len lcid ts).

Definition decode_l2_hello (fuel : nat) (b : buf) : res l2hello :=
  do (ct, b1) <- rd_u8 b;
  do (sys, b2) <- rd_bytes 6 b1;
  do (hold, b3) <- rd_u16 b2;
  do (len, b4) <- rd_u16 b3;
  do (prio, b5) <- rd_u8 b4;
  do (_, b6) <- rd_u8 b5;
  do (dis, b7) <- rd_bytes 6 b6;
  do ts <- read_tlvs fuel b7;
  Ok (mkL2Hello ct sys hold len prio dis ts).

Definition decode_lsp (fuel : nat) (b : buf) : res lsp :=
  do (len, b1) <- rd_u16 b;
  do (life, b2) <- rd_u16 b1;
  do (id, b3) <- rd_bytes 8 b2;
  do (seq, b4) <- rd_u32 b3;
  do (cs, b5) <- rd_u16 b4;
  do (tb, b6) <- rd_u8 b5;
  do ts <- read_tlvs fuel b6;
  Ok (mkLsp len life id seq cs tb ts).

Definition decode_csnp (fuel : nat) (b : buf) : res csnp :=
  do (len, b1) <- rd_u16 b;
  do (src, b2) <- rd_bytes 7 b1;
  do (st, b3) <- rd_bytes 8 b2;
  do (en, b4) <- rd_bytes 8 b3;
  do ts <- read_tlvs fuel b4;
  Ok (mkCsnp len src st en ts).

Definition decode_psnp (fuel : nat) (b : buf) : res psnp :=
  do (len, b1) <- rd_u16 b;
  do (src, b2) <- rd_bytes 7 b1;
  do ts <- read_tlvs fuel b2;
  Ok (mkPsnp len src ts).

Inductive pdukind := PKHello | PKLsp | PKCsnp | PKPsnp | PKOther.

(* the switch of packet.Decode: P2P_HELLO 0x11, L2_LS_PDU_TYPE 0x14, L2_CSNP_TYPE 0x19, L2_PSNP_TYPE 0x1b *)
Definition pdukind_of (ty : N) : pdukind :=
  match ty with
  | 17 => PKHello
  | 20 => PKLsp
  | 25 => PKCsnp
  | 27 => PKPsnp
  | _ => PKOther
  end.

Definition decode_fuel (fuel : nat) (b : buf) : res packet :=
  do (h, b1) <- decode_header b;
  match pdukind_of (h_type h) with
  | PKHello => do x <- decode_p2p_hello fuel b1; Ok (mkPacket h (BHello x))
  | PKLsp => do x <- decode_lsp fuel b1; Ok (mkPacket h (BLsp x))
  | PKCsnp => do x <- decode_csnp fuel b1; Ok (mkPacket h (BCsnp x))
  | PKPsnp => do x <- decode_psnp fuel b1; Ok (mkPacket h (BPsnp x))
  | PKOther => Ok (mkPacket h BNone)
  end.

(* packet.Decode *)
Definition decode (b : buf) : res packet := decode_fuel (S (length b)) b.
(* packet.DecodeL2Hello (exported, not reached from packet.Decode) *)
Definition decode_l2 (b : buf) : res l2hello := decode_l2_hello (S (length b)) b.

(* ------------------------------------------------------------------ serializers *)

Definition enc_entry (e : lspentry) : list N :=
  be16 (le_life e) ++ le_id e ++ be32 (le_seq e) ++ be16 (le_csum e).

Definition enc_sub (s : subtlv) : list N :=
  match s with
  | SLinkLR ty len loc rem => ty :: len :: be32 loc ++ be32 rem
  | SIPv4 ty len addr => ty :: len :: be32 addr
  | SRaw ty len v => ty :: len :: v
  end.

(* NeighborID, convert.Uint32Byte(Metric)[1:], SubTLVLength, sub TLVs *)
Definition enc_extisnbr (n : extisnbr) : list N :=
  xn_id n ++ tl (be32 (xn_metric n)) ++ xn_sublen n :: concat (map enc_sub (xn_subs n)).

(* net.BytesInAddr((UDSubBitPfxLen << 2) >> 2) = ceil(pfxlen / 8) *)
Definition bytes_in_addr (udpfx : N) : N := ((udpfx mod 64) + 7) / 8.

(* Metric, UDSubBitPfxLen, convert.Uint32Byte(Address)[:n], sub TLVs. convert.Uint32Byte returns
   the 4 bytes of a bytes.Buffer whose backing array is 64 zero-initialised bytes, so that [:n]
   with 4 < n <= 8 does not panic but yields trailing zeroes *)
Definition enc_extip (r : extipreach) : list N :=
  be32 (xp_metric r) ++ xp_udpfx r ::
  firstn (N.to_nat (bytes_in_addr (xp_udpfx r))) (be32 (xp_addr r) ++ [0; 0; 0; 0]) ++
  concat (map enc_sub (xp_subs r)).

(* uint8(len(area)), area *)
Definition enc_area (a : list N) : list N := (N.of_nat (length a) mod 256) :: a.

(* what Serialize writes after the type and length bytes *)
Definition tlv_value (t : tlv) : list N :=
  match t with
  | TArea _ _ areas => concat (map enc_area areas)
  | TChecksum _ _ cs => be16 cs
  | TDynHost _ _ nm => nm
  | TProto _ _ ids => ids
  | TIPIf _ _ addrs => concat (map be32 addrs)
  | TP2PAdj _ len st ecid nsys necid =>
    st :: be32 ecid ++ (if len =? 15 then nsys ++ be32 necid else [])
  | TISNbr _ _ snpa => snpa
  | TEntries _ _ es => concat (map enc_entry es)
  | TUnknown _ _ v => v
  | TPadding _ _ d => d
  | TExtIS _ _ ns => concat (map enc_extisnbr ns)
  | TExtIP _ _ rs => concat (map enc_extip rs)
  | TTERid _ _ a => be32 a
  end.

Definition enc_tlv (t : tlv) : list N := tlv_type t :: tlv_len t :: tlv_value t.
Definition enc_tlvs (ts : list tlv) : list N := concat (map enc_tlv ts).

(* tlvsLen := uint16(0); for each TLV: tlvsLen += uint16(TLV.Length()) + 2 *)
Definition tlvs_len16 (ts : list tlv) : N :=
  fold_left (fun acc t => (acc + tlv_len t + 2) mod 65536) ts 0.

Definition enc_header (h : header) : list N :=
  [h_pd h; h_li h; h_pie h; h_idlen h; h_type h; h_ver h; 0; h_maxarea h].

(* P2PHello.Serialize sets PDULength = P2PHelloMinLen + tlvsLen before writing *)
Definition hello_set_len (x : hello) : hello :=
  mkHello (hl_ct x) (hl_sys x) (hl_hold x) ((20 + tlvs_len16 (hl_tlvs x)) mod 65536) (hl_lcid x) (hl_tlvs x).

Definition enc_hello (x : hello) : list N :=
  let y := hello_set_len x in
  hl_ct y :: hl_sys y ++ be16 (hl_hold y) ++ be16 (hl_len y) ++ hl_lcid y :: enc_tlvs (hl_tlvs y).

(* LSPDU.SerializeChecksumRelevant *)
Definition enc_lsp_cs (x : lsp) : list N :=
  ls_id x ++ be32 (ls_seq x) ++ be16 (ls_csum x) ++ ls_tb x :: enc_tlvs (ls_tlvs x).

Definition enc_lsp (x : lsp) : list N :=
  be16 (ls_len x) ++ be16 (ls_life x) ++ enc_lsp_cs x.

Definition enc_csnp (x : csnp) : list N :=
  be16 (cs_len x) ++ cs_src x ++ cs_start x ++ cs_end x ++ enc_tlvs (cs_tlvs x).

Definition enc_psnp (x : psnp) : list N :=
  be16 (ps_len x) ++ ps_src x ++ enc_tlvs (ps_tlvs x).

Definition enc_body (b : body) : list N :=
  match b with
  | BNone => []
  | BHello x => enc_hello x
  | BLsp x => enc_lsp x
  | BCsnp x => enc_csnp x
  | BPsnp x => enc_psnp x
  end.

(* what is on the wire: the ethernet layer (net/ethernet craftLLCPacket) puts the 3 LLC bytes in
   front of ISISHeader.Serialize ++ body.Serialize *)
Definition enc_packet (llc : list N) (p : packet) : list N :=
  llc ++ enc_header (p_hdr p) ++ enc_body (p_body p).

(* ------------------------------------------------------------------ LSPDU length and checksum *)

(* LSPDU.UpdateLength: Length = 27; for each TLV: Length += 2 + uint16(TLV.Length()) *)
Definition lsp_update_length (x : lsp) : lsp :=
  mkLsp (fold_left (fun acc t => (acc + 2 + tlv_len t) mod 65536) (ls_tlvs x) 27)
        (ls_life x) (ls_id x) (ls_seq x) (ls_csum x) (ls_tb x) (ls_tlvs x).

Definition modx : nat := N.to_nat 5802.

(* csum(): note that the inner loop restarts at input[0] for every block of MODX bytes *)
Definition csum_block (input : list N) (plen : nat) (c : Z * Z) : Z * Z :=
  fold_left (fun c x => let c0 := (fst c + Z.of_N x)%Z in (c0, (snd c + c0)%Z)) (firstn plen input) c.

Fixpoint csum_blocks (n : nat) (input : list N) (left : nat) (c : Z * Z) : Z * Z :=
  match n with
  | O => c
  | S n' =>
    if (left =? 0)%nat then c else
    let plen := Nat.min left modx in
    let c' := csum_block input plen c in
    csum_blocks n' input (left - plen) (fst c' mod 255, snd c' mod 255)%Z
  end.

Definition csum (input : list N) : N :=
  let n := length input in
  let c := csum_blocks (S (n / modx)) input n (0, 0)%Z in
  let c0 := fst c in let c1 := snd c in
  let z := ((Z.of_nat n - 12 - 1) * c0 - c1)%Z in
  let x := Z.rem z 255 in
  let x := (if x <? 0 then x + 255 else x)%Z in
  let y := (510 - c0 - x)%Z in
  let y := (if 255 <? y then y - 255 else y)%Z in
  Z.to_N ((x mod 256) * 256 + y mod 256)%Z.

(* LSPDU.SetChecksum (the current value of the Checksum field is part of the input) *)
Definition lsp_set_checksum (x : lsp) : lsp :=
  mkLsp (ls_len x) (ls_life x) (ls_id x) (ls_seq x) (csum (enc_lsp_cs x)) (ls_tb x) (ls_tlvs x).

(* ------------------------------------------------------------------ NewCSNPs / NewPSNPs *)

(* NewLSPEntriesTLV: TLVLength = uint8(len(entries)) * 16 *)
Definition new_entries_tlv (es : list lspentry) : tlv :=
  TEntries 9 (((N.of_nat (length es) mod 256) * 16) mod 256) es.

(* NewLSPEntriesTLVs: for len(es) > 15 { append(NewLSPEntriesTLV(es[:15])); es = es[15:] }; append(NewLSPEntriesTLV(es)) *)
Fixpoint new_entries_tlvs (fuel : nat) (es : list lspentry) : res (list tlv) :=
  match fuel with
  | O => OutOfFuel
  | S f =>
    if (15 <? length es)%nat then
      do rest <- new_entries_tlvs f (skipn 15 es);
      Ok (new_entries_tlv (firstn 15 es) :: rest)
    else Ok [new_entries_tlv es]
  end.

(* lspEntriesPerPDU(space) *)
Definition entries_per_pdu (space : Z) : Z :=
  if (space <? 0)%Z then 0%Z else
  let n := (space / 242 * 15)%Z in
  let rest := (space mod 242)%Z in
  if (2 <? rest)%Z then (n + (rest - 2) / 16)%Z else n.

(* the less function of the sort.Slice call: LSPID.Compare(other) < 0 = SystemID bytes, then PseudonodeID,
   then LSPNumber = lexicographic order of the 8 LSPID bytes *)
Fixpoint lex_lt (x y : list N) : bool :=
  match x, y with
  | a :: x', b :: y' => if a <? b then true else if b <? a then false else lex_lt x' y'
  | _, _ => false
  end.
Definition entry_lt (a b : lspentry) : bool := lex_lt (le_id a) (le_id b).

(* sort.Slice is modelled as a stable insertion sort (what Go runs for fewer than 13 elements; for
   longer slices pdqsort may order entries with equal keys differently - the theorems only use
   that the result is a permutation of the input) *)
Fixpoint insert_entry (e : lspentry) (l : list lspentry) : list lspentry :=
  match l with
  | [] => [e]
  | x :: r => if entry_lt e x then e :: l else x :: insert_entry e r
  end.
Definition sort_entries (l : list lspentry) : list lspentry :=
  fold_left (fun acc e => insert_entry e acc) l [].

(* s[lo:hi] on a slice whose capacity equals its length *)
Definition slice {A : Type} (l : list A) (lo hi : nat) : res (list A) :=
  if ((lo <=? hi) && (hi <=? length l))%nat then Ok (firstn (hi - lo) (skipn lo l)) else Panic.

Definition ceil_div (a b : nat) : nat := ((a + b - 1) / b)%nat.

(* newCSNP: PDULength = uint16(CSNPMinLen + tlvsLen) *)
Definition new_csnp (src st en : list N) (ts : list tlv) : csnp :=
  mkCsnp ((33 + tlvs_len16 ts) mod 65536) src st en ts.

Definition zero8 : list N := [0; 0; 0; 0; 0; 0; 0; 0].
Definition ff8 : list N := [255; 255; 255; 255; 255; 255; 255; 255].

(* the body of `for i := 0; i < numCSNPs; i++` *)
Fixpoint csnp_loop (cnt i per : nat) (src : list N) (es : list lspentry) : res (list csnp) :=
  match cnt with
  | O => Ok []
  | S c =>
    let start := (i * per)%nat in
    let e := Nat.min per (length es - start) in
    if (length es <? start)%nat then Panic else     (* left-start < 0: slice bounds out of range *)
    do chunk <- slice es start (start + e);
    match chunk with
    | [] => Panic                                    (* entries[0] *)
    | first :: _ =>
      do ts <- new_entries_tlvs (S (length chunk)) chunk;
      do rest <- csnp_loop c (S i) per src es;
      Ok (new_csnp src (le_id first) (le_id (last chunk first)) ts :: rest)
    end
  end.

Definition set_first_start (cs : list csnp) : res (list csnp) :=
  match cs with
  | [] => Panic                                      (* res[0] *)
  | c :: r => Ok (mkCsnp (cs_len c) (cs_src c) zero8 (cs_end c) (cs_tlvs c) :: r)
  end.

Fixpoint set_last_end (cs : list csnp) : res (list csnp) :=
  match cs with
  | [] => Panic                                      (* res[len(res)-1] *)
  | [c] => Ok [mkCsnp (cs_len c) (cs_src c) (cs_start c) ff8 (cs_tlvs c)]
  | c :: r => do r' <- set_last_end r; Ok (c :: r')
  end.

(* NewCSNPs(sourceID, lspEntries, maxPDULen); the slice has len == cap *)
Definition new_csnps (src : list N) (es : list lspentry) (maxlen : Z) : res (list csnp) :=
  let per := entries_per_pdu (maxlen - 33) in
  if (per <? 1)%Z then Ok [] else
  let per := Z.to_nat per in
  let num := ceil_div (length es) per in
  if (num =? 0)%nat then Ok [] else
  let sorted := sort_entries es in
  do cs <- csnp_loop num 0 per src sorted;
  do cs <- set_first_start cs;
  set_last_end cs.

(* newPSNP: nil for no entries (the loop then leaves a zero PSNP in the result) *)
Definition new_psnp (src : list N) (es : list lspentry) : res psnp :=
  match es with
  | [] => Ok (mkPsnp 0 [0; 0; 0; 0; 0; 0; 0] [])       (* newPSNP returns nil and the loop leaves the zero value PSNP{} *)
  | _ =>
    do ts <- new_entries_tlvs (S (length es)) es;
    Ok (mkPsnp (fold_left (fun acc t => (acc + tlv_len t + 2) mod 65536) ts 17) src ts)
  end.

Fixpoint psnp_loop (cnt i per : nat) (src : list N) (es : list lspentry) : res (list psnp) :=
  match cnt with
  | O => Ok []
  | S c =>
    let start := (i * per)%nat in
    let e := Nat.min per (length es - start) in
    if (length es <? start)%nat then Panic else
    do chunk <- slice es start (start + e);
    do p <- new_psnp src chunk;
    do rest <- psnp_loop c (S i) per src es;
    Ok (p :: rest)
  end.

(* NewPSNPs(sourceID, lspEntries, maxPDULen) *)
Definition new_psnps (src : list N) (es : list lspentry) (maxlen : Z) : res (list psnp) :=
  let per := entries_per_pdu (maxlen - 17) in
  if (per <? 1)%Z then Ok [] else
  let per := Z.to_nat per in
  psnp_loop (ceil_div (length es) per) 0 per src es.

(* ------------------------------------------------------------------ TLV constructors (uint8 length arithmetic) *)

(* NewAreaAddressesTLV: TLVLength += uint8(len(area)) + 1 per area *)
Definition new_area_tlv (areas : list (list N)) : tlv :=
  TArea 1 (fold_left (fun acc a => (acc + N.of_nat (length a) + 1) mod 256) areas 0) areas.
(* NewDynamicHostnameTLV: uint8(len(name)) *)
Definition new_dynhost_tlv (name : list N) : tlv := TDynHost 137 (N.of_nat (length name) mod 256) name.
(* NewProtocolsSupportedTLV: uint8(len(protocols)) *)
Definition new_proto_tlv (ids : list N) : tlv := TProto 129 (N.of_nat (length ids) mod 256) ids.
(* NewIPInterfaceAddressesTLV: uint8(len(addrs) * 4) *)
Definition new_ipif_tlv (addrs : list N) : tlv := TIPIf 132 ((N.of_nat (length addrs) * 4) mod 256) addrs.
(* NewP2PAdjacencyStateTLV *)
Definition new_p2padj_tlv (st ecid : N) : tlv := TP2PAdj 240 5 st ecid zero6 0.
(* NewPaddingTLV(length uint8) *)
Definition new_padding_tlv (len : N) : tlv := TPadding 8 len (repeat 0 (N.to_nat len)).
(* NewTrafficEngineeringRouterIDTLV *)
Definition new_terid_tlv (a : N) : tlv := TTERid 134 4 a.

Definition sub_len (s : subtlv) : N :=
  match s with SLinkLR _ l _ _ | SIPv4 _ l _ | SRaw _ l _ => l end.

(* ExtendedISReachabilityNeighbor.AddSubTLV: SubTLVLength += tlv.Length() + 2 *)
Definition extis_nbr_add_sub (n : extisnbr) (s : subtlv) : extisnbr :=
  mkExtIsNbr (xn_id n) (xn_metric n) ((xn_sublen n + sub_len s + 2) mod 256) (xn_subs n ++ [s]).
(* NewExtendedISReachabilityNeighbor followed by AddSubTLV calls *)
Definition new_extis_nbr (id : list N) (metric : N) (subs : list subtlv) : extisnbr :=
  fold_left extis_nbr_add_sub subs (mkExtIsNbr id metric 0 []).
(* ExtendedISReachabilityTLV.AddNeighbor: TLVLength += 11 + n.SubTLVLength *)
Definition extis_add (t : tlv) (n : extisnbr) : tlv :=
  match t with
  | TExtIS ty len ns => TExtIS ty ((len + 11 + xn_sublen n) mod 256) (ns ++ [n])
  | _ => t
  end.
(* NewExtendedISReachabilityTLV followed by AddNeighbor calls *)
Definition new_extis_tlv (ns : list extisnbr) : tlv := fold_left extis_add ns (TExtIS 22 0 []).

(* ExtendedIPReachabilityTLV.AddExtendedIPReachability: TLVLength += 5 + BytesInAddr(PfxLen()) *)
Definition extip_add (t : tlv) (r : extipreach) : tlv :=
  match t with
  | TExtIP ty len rs => TExtIP ty ((len + 5 + bytes_in_addr (xp_udpfx r)) mod 256) (rs ++ [r])
  | _ => t
  end.
(* NewExtendedIPReachabilityTLV followed by AddExtendedIPReachability(NewExtendedIPReachability(metric, pfxLen, addr)) calls *)
Definition new_extip_tlv (rs : list (N * N * N)) : tlv :=
  fold_left extip_add (map (fun r => match r with (m, p, a) => mkExtIp m p a [] end) rs) (TExtIP 135 0 []).
