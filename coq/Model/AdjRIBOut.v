(* C08/C09/C11/C12: executable, value-level model of routingtable/adjRIBOut/adj_rib_out.go,
   routingtable/update_helper.go and the parts of route/{path.go,bgp_path.go} they use.
   (Aliasing - who owns which path object - is the subject of Model/Heap.v, C13.)

   Describes the code after the fixes c2931dd9 (used counter), 4c090b17/774302f3 (add-path withdrawal
   matched by Compare modulo the path id), 41a529d9 (hash covers all attributes), 678760d8 (RefreshRoute
   copies/redistributes), a6e11f38 (RefreshRoute skips non-exportable paths), 532f0aba
   (removeExportedPath), a95945b3 (RefreshRoute compares all attributes).  Known, unrepaired behaviour is modelled as it is: RemovePath looks the
   UNREWRITTEN path up (stale entries on rewriting sessions), and the arrival of a non-exportable
   path on an add-path session withdraws the whole prefix.

   Conventions: IPv4 addresses, ASNs, communities are N; a prefix is an opaque N (the harness maps
   small ids to distinct prefixes; policies match prefixes exactly).  A BGP-typed path always has a
   BGPPath with non-nil BGPPathA/ASPath/Source/NextHop (assumption asserted by the harnesses).
   No proofs in this file. *)
From Coq Require Import List NArith Bool.
Import ListNotations.
From BioVerif Require Import Model.PathIDs.
Local Open Scope N_scope.

(* ------------------------------------------------------------------ paths *)

(* types.UnknownPathAttribute; flags = 4*Optional + 2*Transitive + Partial *)
Record unkattr := mkUnk { u_flags : N; u_code : N; u_val : list N }.

(* route.BGPPath with its BGPPathA inlined. AS path segment = (is AS_SEQUENCE?, ASNs). *)
Record bgp := mkBgp {
  b_nh : N; b_src : N; b_lp : N; b_med : N; b_bgpid : N; b_oid : N;
  b_agg : option (N * N);            (* Aggregator (ASN, address), nil = None *)
  b_ebgp : bool; b_atomic : bool; b_origin : N; b_otc : N;
  b_aspath : list (bool * list N);
  b_aslen : N;                       (* ASPathLen: a field of its own, uint16 *)
  b_cl : option (list N);            (* *ClusterList, nil = None *)
  b_comms : option (list N);
  b_lcomms : option (list (N * N * N));
  b_unk : list unkattr;
  b_pid : N                          (* PathIdentifier *)
}.

(* route.Path: a static path (StaticPath nil or its next hop) or a BGP-typed path with
   RedistributedFrom (0 = learned via BGP, 1 = redistributed static) *)
Inductive path := PStatic (snh : option N) | PBgp (redist : N) (b : bgp).

Definition set_nh (v : N) (b : bgp) : bgp :=
  mkBgp v (b_src b) (b_lp b) (b_med b) (b_bgpid b) (b_oid b) (b_agg b) (b_ebgp b) (b_atomic b)
        (b_origin b) (b_otc b) (b_aspath b) (b_aslen b) (b_cl b) (b_comms b) (b_lcomms b) (b_unk b) (b_pid b).
Definition set_lp (v : N) (b : bgp) : bgp :=
  mkBgp (b_nh b) (b_src b) v (b_med b) (b_bgpid b) (b_oid b) (b_agg b) (b_ebgp b) (b_atomic b)
        (b_origin b) (b_otc b) (b_aspath b) (b_aslen b) (b_cl b) (b_comms b) (b_lcomms b) (b_unk b) (b_pid b).
Definition set_med (v : N) (b : bgp) : bgp :=
  mkBgp (b_nh b) (b_src b) (b_lp b) v (b_bgpid b) (b_oid b) (b_agg b) (b_ebgp b) (b_atomic b)
        (b_origin b) (b_otc b) (b_aspath b) (b_aslen b) (b_cl b) (b_comms b) (b_lcomms b) (b_unk b) (b_pid b).
Definition set_oid (v : N) (b : bgp) : bgp :=
  mkBgp (b_nh b) (b_src b) (b_lp b) (b_med b) (b_bgpid b) v (b_agg b) (b_ebgp b) (b_atomic b)
        (b_origin b) (b_otc b) (b_aspath b) (b_aslen b) (b_cl b) (b_comms b) (b_lcomms b) (b_unk b) (b_pid b).
Definition set_otc (v : N) (b : bgp) : bgp :=
  mkBgp (b_nh b) (b_src b) (b_lp b) (b_med b) (b_bgpid b) (b_oid b) (b_agg b) (b_ebgp b) (b_atomic b)
        (b_origin b) v (b_aspath b) (b_aslen b) (b_cl b) (b_comms b) (b_lcomms b) (b_unk b) (b_pid b).
Definition set_aspath (v : list (bool * list N)) (l : N) (b : bgp) : bgp :=
  mkBgp (b_nh b) (b_src b) (b_lp b) (b_med b) (b_bgpid b) (b_oid b) (b_agg b) (b_ebgp b) (b_atomic b)
        (b_origin b) (b_otc b) v l (b_cl b) (b_comms b) (b_lcomms b) (b_unk b) (b_pid b).
Definition set_cl (v : option (list N)) (b : bgp) : bgp :=
  mkBgp (b_nh b) (b_src b) (b_lp b) (b_med b) (b_bgpid b) (b_oid b) (b_agg b) (b_ebgp b) (b_atomic b)
        (b_origin b) (b_otc b) (b_aspath b) (b_aslen b) v (b_comms b) (b_lcomms b) (b_unk b) (b_pid b).
Definition set_comms (v : option (list N)) (b : bgp) : bgp :=
  mkBgp (b_nh b) (b_src b) (b_lp b) (b_med b) (b_bgpid b) (b_oid b) (b_agg b) (b_ebgp b) (b_atomic b)
        (b_origin b) (b_otc b) (b_aspath b) (b_aslen b) (b_cl b) v (b_lcomms b) (b_unk b) (b_pid b).
Definition set_pid (v : N) (b : bgp) : bgp :=
  mkBgp (b_nh b) (b_src b) (b_lp b) (b_med b) (b_bgpid b) (b_oid b) (b_agg b) (b_ebgp b) (b_atomic b)
        (b_origin b) (b_otc b) (b_aspath b) (b_aslen b) (b_cl b) (b_comms b) (b_lcomms b) (b_unk b) v.

(* route.NewBGPPath(): one empty AS_SEQUENCE, next hop and source 0.0.0.0 *)
Definition new_bgp : bgp :=
  mkBgp 0 0 0 0 0 0 None false false 0 0 [(true, [])] 0 None None None [] 0.

(* ------------------------------------------------------------------ the path-id hash *)

(* ASPath.String(): ASNs of sequences one by one, a set as one parenthesised token *)
Inductive astok := TAsn (a : N) | TSet (l : list N).

Definition as_tokens (p : list (bool * list N)) : list astok :=
  flat_map (fun seg : bool * list N => if fst seg then map TAsn (snd seg) else [TSet (snd seg)]) p.

Definition olist {A : Type} (o : option (list A)) : list A := match o with Some l => l | None => [] end.

(* exactly what BGPPath.ComputeHash formats (after fix 41a529d9); a nil and an empty list print alike *)
Record hkey := mkH {
  h_nh : N; h_lp : N; h_as : list astok; h_origin : N; h_med : N; h_ebgp : bool; h_bgpid : N;
  h_src : N; h_comms : list N; h_lcomms : list (N * N * N); h_oid : N; h_cl : list N;
  h_atomic : bool; h_agg : option (N * N); h_otc : N; h_unk : list unkattr }.

Definition hkey_of (b : bgp) : hkey :=
  mkH (b_nh b) (b_lp b) (as_tokens (b_aspath b)) (b_origin b) (b_med b) (b_ebgp b) (b_bgpid b)
      (b_src b) (olist (b_comms b)) (olist (b_lcomms b)) (b_oid b) (olist (b_cl b))
      (b_atomic b) (b_agg b) (b_otc b) (b_unk b).

Definition hkey_eq_dec : forall a b : hkey, {a = b} + {a <> b}.
Proof. repeat decide equality. Defined.

(* ------------------------------------------------------------------ comparisons *)

Fixpoint list_eqb {A : Type} (eqb : A -> A -> bool) (l m : list A) : bool :=
  match l, m with
  | [], [] => true
  | x :: l', y :: m' => eqb x y && list_eqb eqb l' m'
  | _, _ => false
  end.

Definition opt_eqb {A : Type} (eqb : A -> A -> bool) (a b : option A) : bool :=
  match a, b with
  | None, None => true
  | Some x, Some y => eqb x y
  | _, _ => false
  end.

Definition pair_eqb (a b : N * N) : bool := N.eqb (fst a) (fst b) && N.eqb (snd a) (snd b).
Definition lc_eqb (a b : N * N * N) : bool := pair_eqb (fst a) (fst b) && N.eqb (snd a) (snd b).
Definition seg_eqb (a b : bool * list N) : bool := Bool.eqb (fst a) (fst b) && list_eqb N.eqb (snd a) (snd b).
Definition unk_eqb (a b : unkattr) : bool :=
  N.eqb (u_flags a) (u_flags b) && N.eqb (u_code a) (u_code b) && list_eqb N.eqb (u_val a) (u_val b).

(* BGPPath.Compare: every attribute, nil and empty lists distinguished, but neither ASPathLen nor OTC *)
Definition bgp_compare (a b : bgp) : bool :=
  N.eqb (b_pid a) (b_pid b) &&
  N.eqb (b_nh a) (b_nh b) && N.eqb (b_src a) (b_src b) && N.eqb (b_lp a) (b_lp b) &&
  N.eqb (b_med a) (b_med b) && N.eqb (b_bgpid a) (b_bgpid b) && N.eqb (b_oid a) (b_oid b) &&
  Bool.eqb (b_ebgp a) (b_ebgp b) && Bool.eqb (b_atomic a) (b_atomic b) && N.eqb (b_origin a) (b_origin b) &&
  opt_eqb pair_eqb (b_agg a) (b_agg b) &&
  list_eqb seg_eqb (b_aspath a) (b_aspath b) &&
  opt_eqb (list_eqb N.eqb) (b_cl a) (b_cl b) &&
  opt_eqb (list_eqb N.eqb) (b_comms a) (b_comms b) &&
  opt_eqb (list_eqb lc_eqb) (b_lcomms a) (b_lcomms b) &&
  list_eqb unk_eqb (b_unk a) (b_unk b).

(* Path.Compare (StaticPath.Compare = next hops equal, false if either StaticPath is nil) *)
Definition path_compare (p q : path) : bool :=
  match p, q with
  | PBgp _ a, PBgp _ b => bgp_compare a b
  | PStatic (Some x), PStatic (Some y) => N.eqb x y
  | _, _ => false
  end.

Definition eff_id (b : bgp) : N := if N.eqb (b_oid b) 0 then b_bgpid b else b_oid b.
Definition cl_len (b : bgp) : nat := length (olist (b_cl b)).

(* BGPPath.Select(..) == 0 *)
Definition bgp_select_eq (a b : bgp) : bool :=
  N.eqb (b_lp a) (b_lp b) && N.eqb (b_aslen a) (b_aslen b) && N.eqb (b_origin a) (b_origin b) &&
  N.eqb (b_med a) (b_med b) && Bool.eqb (b_ebgp a) (b_ebgp b) && N.eqb (eff_id a) (eff_id b) &&
  Nat.eqb (cl_len a) (cl_len b) && N.eqb (b_src a) (b_src b) && N.eqb (b_nh a) (b_nh b).

(* Path.Select(..) == 0 for the path kinds that occur (two static paths: next hops equal) *)
Definition path_select_eq (p q : path) : bool :=
  match p, q with
  | PBgp _ a, PBgp _ b => bgp_select_eq a b
  | PStatic (Some x), PStatic (Some y) => N.eqb x y
  | _, _ => false
  end.

(* Path.Equal: BGP = same PathIdentifier and Select == 0 *)
Definition path_equal (p q : path) : bool :=
  match p, q with
  | PBgp _ a, PBgp _ b => N.eqb (b_pid a) (b_pid b) && bgp_select_eq a b
  | PStatic (Some x), PStatic (Some y) => N.eqb x y
  | _, _ => false
  end.

(* ------------------------------------------------------------------ AS path prepend *)

(* ASPath.Length(): a sequence counts its ASNs, a set counts 1; uint16 *)
Definition as_length (p : list (bool * list N)) : N :=
  (fold_left (fun (acc : N) (seg : bool * list N) => acc + (if fst seg then N.of_nat (length (snd seg)) else 1)) p 0) mod 65536.

(* one round of the loop in BGPPath.Prepend (including the preparation before the loop, which only
   has an effect in the first round): open a new AS_SEQUENCE if there is none in front or the one in
   front holds 255 ASNs, then put asn in front *)
Definition prepend_one (asn : N) (p : list (bool * list N)) : list (bool * list N) :=
  match p with
  | (true, asns) :: rest =>
    if Nat.eqb (length asns) 255 then (true, [asn]) :: (true, asns) :: rest else (true, asn :: asns) :: rest
  | _ => (true, [asn]) :: p
  end.

Fixpoint prepend_n (asn : N) (times : nat) (p : list (bool * list N)) : list (bool * list N) :=
  match times with O => p | S t => prepend_one asn (prepend_n asn t p) end.

(* BGPPath.Prepend(asn, times): times == 0 leaves even ASPathLen alone *)
Definition bgp_prepend (asn : N) (times : N) (b : bgp) : bgp :=
  if N.eqb times 0 then b
  else let p := prepend_n asn (N.to_nat times) (b_aspath b) in set_aspath p (as_length p) b.

(* ------------------------------------------------------------------ export policy language *)

(* The part of routingtable/filter the harnesses build chains from: terms whose conditions are
   route filters with the exact matcher, and the six actions that implement actions.Action
   (AddCommunityAction/AddLargeCommunityAction do not: their Do takes the prefix by value). *)
Inductive action :=
| ASetLP (v : N) | ASetMED (v : N) | ASetNH (ip : N) | APrepend (asn times : N)
| AAccept | AReject.

Record term := mkTerm { t_from : list (list N); t_then : list action }.
Definition filter_t := list term.
Definition chain := list filter_t.

Inductive ares := RCont (p : path) | RAccept (p : path) | RReject.

Definition do_action (a : action) (p : path) : ares :=
  match a, p with
  | AAccept, _ => RAccept p
  | AReject, _ => RReject
  | ASetNH ip, PBgp r b => RCont (PBgp r (set_nh ip b))
  | ASetNH ip, PStatic (Some _) => RCont (PStatic (Some ip))
  | ASetNH _, PStatic None => RCont p
  | _, PStatic _ => RCont p                       (* pa.BGPPath == nil: no-op *)
  | ASetLP v, PBgp r b => RCont (PBgp r (set_lp v b))
  | ASetMED v, PBgp r b => RCont (PBgp r (set_med v b))
  | APrepend asn t, PBgp r b => RCont (PBgp r (bgp_prepend asn (t mod 65536) b))
  end.

Fixpoint do_actions (l : list action) (p : path) : ares :=
  match l with
  | [] => RCont p
  | a :: l' => match do_action a p with
               | RCont p' => do_actions l' p'
               | r => r
               end
  end.

Definition cond_matches (c : list N) (pfx : N) : bool :=
  match c with [] => true | _ => existsb (N.eqb pfx) c end.

Definition term_matches (t : term) (pfx : N) : bool :=
  match t_from t with [] => true | cs => existsb (fun c => cond_matches c pfx) cs end.

Fixpoint do_terms (ts : list term) (pfx : N) (p : path) : ares :=
  match ts with
  | [] => RCont p
  | t :: ts' =>
    if term_matches t pfx then
      match do_actions (t_then t) p with
      | RCont p' => do_terms ts' pfx p'
      | r => r
      end
    else do_terms ts' pfx p
  end.

(* Chain.Process: None = reject *)
Fixpoint interp (c : chain) (pfx : N) (p : path) : option path :=
  match c with
  | [] => Some p
  | f :: c' => match do_terms f pfx p with
               | RCont p' => interp c' pfx p'
               | RAccept p' => Some p'
               | RReject => None
               end
  end.

(* ------------------------------------------------------------------ session *)

(* routingtable.SessionAttrs (Type is always BGPPathType). s_role_on = PeerRoleEnabled && PeerRoleAdvByPeer;
   s_role = PeerRoleRemote: 0 provider, 1 RS, 2 RS client, 3 customer, 4 peer *)
Record sess := mkSess {
  s_ibgp : bool; s_rsclient : bool; s_rrclient : bool; s_addpath : bool;
  s_localasn : N; s_localip : N; s_peerip : N; s_clusterid : N;
  s_role_on : bool; s_role : N }.

Definition NO_EXPORT : N := 4294967041.      (* 0xFFFFFF01 *)
Definition NO_ADVERTISE : N := 4294967042.   (* 0xFFFFFF02 *)

(* routingtable.ShouldPropagateUpdate = !isOwnPath && !isDisallowedByCommunity *)
Definition disallowed (s : sess) (b : bgp) : bool :=
  existsb (fun c => (N.eqb c NO_EXPORT && negb (s_ibgp s)) || N.eqb c NO_ADVERTISE) (olist (b_comms b)).

Definition should_propagate (s : sess) (p : path) : bool :=
  match p with
  | PStatic _ => true
  | PBgp _ b => negb (N.eqb (b_src b) (s_peerip s)) && negb (disallowed s b)
  end.

(* checkPropagateUpdateIBGP *)
Definition rewrite_ibgp (s : sess) (r : N) (b : bgp) : option bgp :=
  if negb (N.eqb r 0) then Some b
  else if negb (b_ebgp b) && negb (s_rrclient s) then None
  else if s_rrclient s then
    let b1 := if N.eqb (b_oid b) 0 then set_oid (b_src b) b else b in
    Some (set_cl (Some (s_clusterid s :: olist (b_cl b1))) b1)
  else Some b.

Definition role_in (r : N) (l : list N) : bool := existsb (N.eqb r) l.

(* checkPropagateUpdateEBGP *)
Definition rewrite_ebgp (s : sess) (b : bgp) : option bgp :=
  let b1 := if negb (s_rsclient s) then set_nh (s_localip s) (bgp_prepend (s_localasn s) 1 b) else b in
  if s_role_on s then
    if negb (N.eqb (b_otc b1) 0) && role_in (s_role s) [0; 4; 1] then None
    else if N.eqb (b_otc b1) 0 && role_in (s_role s) [3; 4; 2] then Some (set_otc (s_localasn s) b1)
    else Some b1
  else Some b1.

(* the rewriting half of checkPropagateUpdate (for a path that passed ShouldPropagateUpdate) *)
Definition rewrite (s : sess) (r : N) (b : bgp) : option bgp :=
  if s_ibgp s then rewrite_ibgp s r b else rewrite_ebgp s b.

(* Path.CheckRedistribute(BGPPathType) + redistributePath/redistributeFromStatic: (RedistributedFrom, BGPPath) *)
Definition redistribute (s : sess) (p : path) : N * bgp :=
  match p with
  | PBgp _ b => (0, b)
  | PStatic (Some n) => (1, set_nh n new_bgp)
  | PStatic None => (1, set_nh (s_localip s) new_bgp)
  end.

(* what a session exports for a Loc-RIB path under policy f, before a path id is assigned: the
   composition AddPath applies (redistribute, propagate rules + rewrite, export filter chain) *)
Definition export_with (f : N -> path -> option path) (s : sess) (pfx : N) (p : path) : option path :=
  let (r, b) := redistribute s p in
  if should_propagate s (PBgp r b) then
    match rewrite s r b with
    | Some b' => f pfx (PBgp r b')
    | None => None
    end
  else None.

(* ------------------------------------------------------------------ the table *)

Inductive event := Announce (pfx : N) (p : path) | Withdraw (pfx : N) (p : path).

(* rt as the list of (prefix, path) entries in insertion order: the paths of one prefix are the
   entries with that prefix, in the order route.AddPath appended them (route.removePath keeps the order).
   elog: calls made on the registered clients, newest first.
   diverged: the id search loop ran out of fuel (shown unreachable).
   errs: number of AddPath calls that failed with "out of path IDs". *)
Record aro (P : Type) := mkAro {
  tbl : list (N * path); pm : pidm hkey; cur : P; elog : list event; diverged : bool; errs : N }.
Arguments mkAro {P}.
Arguments tbl {P}.
Arguments pm {P}.
Arguments cur {P}.
Arguments elog {P}.
Arguments diverged {P}.
Arguments errs {P}.

Definition tbl_get (pfx : N) (t : list (N * path)) : list path :=
  map snd (filter (fun e => N.eqb (fst e) pfx) t).

Definition tbl_add (pfx : N) (p : path) (t : list (N * path)) : list (N * path) := t ++ [(pfx, p)].

(* route.removePath: drop the first path of the prefix that Compares equal *)
Fixpoint tbl_remove_first (pfx : N) (p : path) (t : list (N * path)) : list (N * path) :=
  match t with
  | [] => []
  | (k, x) :: t' =>
    if N.eqb k pfx && path_compare x p then t' else (k, x) :: tbl_remove_first pfx p t'
  end.

Definition tbl_drop (pfx : N) (t : list (N * path)) : list (N * path) :=
  filter (fun e => negb (N.eqb (fst e) pfx)) t.

Definition path_hkey (p : path) : option hkey :=
  match p with PBgp _ b => Some (hkey_of b) | PStatic _ => None end.

Definition same_hkey (p q : path) : bool :=
  match path_hkey p, path_hkey q with
  | Some a, Some b => if hkey_eq_dec a b then true else false
  | _, _ => false
  end.

(* isAnnouncementOf (fix 774302f3): the stored path Compares equal to p once our path id is put in *)
Definition is_announcement_of (sp p : path) : bool :=
  match sp, p with
  | PBgp _ a, PBgp _ b => bgp_compare a (set_pid (b_pid a) b)
  | _, _ => false
  end.

Definition path_set_pid (i : N) (p : path) : path :=
  match p with PBgp r b => PBgp r (set_pid i b) | _ => p end.

Section ARO.
  (* the export policy: any type of policies with any evaluation function *)
  Variable P : Type.
  Variable apply : P -> N -> path -> option path.
  Variable s : sess.

  Notation st := (aro P).

  Definition with_tbl (a : st) (t : list (N * path)) : st :=
    mkAro t (pm a) (cur a) (elog a) (diverged a) (errs a).
  Definition emit (a : st) (e : event) : st :=
    mkAro (tbl a) (pm a) (cur a) (e :: elog a) (diverged a) (errs a).

  (* AdjRIBOut.addPath (p is the exported path) *)
  Definition add_inner (a : st) (pfx : N) (p : path) : st :=
    if s_addpath s then
      match path_hkey p with
      | None => a                                   (* not reachable: exported paths are BGP paths *)
      | Some k =>
        match pid_add hkey hkey_eq_dec k (pm a) with
        | (m, AddOk id) =>
          let p' := path_set_pid id p in
          mkAro (tbl_add pfx p' (tbl a)) m (cur a)
                (Announce pfx p' :: elog a) (diverged a) (errs a)
        | (_, AddErr) => mkAro (tbl a) (pm a) (cur a) (elog a) (diverged a) (errs a + 1)
        | (_, AddDiverge) => mkAro (tbl a) (pm a) (cur a) (elog a) true (errs a)
        end
      end
    else
      (* rt.ReplacePath: every old path goes, clients are told about each, then the new one *)
      let old := tbl_get pfx (tbl a) in
      mkAro (tbl_add pfx p (tbl_drop pfx (tbl a))) (pm a) (cur a)
            (Announce pfx p :: rev (map (Withdraw pfx) old) ++ elog a) (diverged a) (errs a).

  (* AdjRIBOut.removeExportedPath; the bool is its return value *)
  Definition remove_exported (a : st) (pfx : N) (p : path) : st * bool :=
    match tbl_get pfx (tbl a) with
    | [] => (a, false)
    | paths =>
      if s_addpath s then
        match find (fun sp => is_announcement_of sp p) paths with
        | None => (a, false)
        | Some sp =>
          let t := tbl_remove_first pfx sp (tbl a) in
          match path_hkey sp with
          | None => (a, false)                      (* not reachable: stored paths are BGP paths *)
          | Some k =>
            match pid_release hkey hkey_eq_dec k (pm a) with
            | (_, None) => (with_tbl a t, true)     (* "Unable to release path": logged, clients not told *)
            | (m, Some _) =>
              (mkAro t m (cur a) (Withdraw pfx sp :: elog a) (diverged a) (errs a), true)
            end
          end
        end
      else
        (mkAro (tbl_remove_first pfx p (tbl a)) (pm a) (cur a)
               (Withdraw pfx p :: elog a) (diverged a) (errs a), true)
    end.

  (* AdjRIBOut.removePath with the current chain (p is what the caller hands in: for the Loc-RIB
     its own, unrewritten path) *)
  Definition remove_path (a : st) (pfx : N) (p : path) : st * bool :=
    if should_propagate s p then
      match apply (cur a) pfx p with
      | None => (a, false)
      | Some p' => remove_exported a pfx p'
      end
    else (a, false).

  (* removePathsForPrefix: RemovePath for each path stored at the time of the call *)
  Definition wipe (a : st) (pfx : N) : st :=
    fold_left (fun acc sp => fst (remove_path acc pfx sp)) (tbl_get pfx (tbl a)) a.

  (* AdjRIBOut.AddPath *)
  Definition add_path (a : st) (pfx : N) (p : path) : st :=
    let (r, b) := redistribute s p in
    if should_propagate s (PBgp r b) then
      match rewrite s r b with
      | None => a
      | Some b' =>
        match apply (cur a) pfx (PBgp r b') with
        | None => a
        | Some p' => add_inner a pfx p'
        end
      end
    else if s_addpath s then wipe a pfx else a.

  (* AdjRIBOut.RefreshRoute for one Loc-RIB path, pending chain nw *)
  Definition refresh_one (nw : P) (pfx : N) (a : st) (p : path) : st :=
    let (r, b) := redistribute s p in
    if should_propagate s (PBgp r b) then
      match rewrite s r b with
      | None => a
      | Some b' =>
        match apply (cur a) pfx (PBgp r b'), apply nw pfx (PBgp r b') with
        | None, None => a
        | Some c, None => fst (remove_exported a pfx c)
        | None, Some n => add_inner a pfx n
        | Some c, Some n =>
          if path_compare c n then a else add_inner (fst (remove_exported a pfx c)) pfx n
        end
      end
    else a.

  (* AdjRIBOut.ReplaceFilterChain: the Loc-RIB calls RefreshRoute(pfx, first n paths) for each of its
     routes (view), then the pending chain becomes the current one *)
  Definition replace_chain (a : st) (nw : P) (view : list (N * list path)) : st :=
    let a' := fold_left (fun acc r => fold_left (refresh_one nw (fst r)) (snd r) acc) view a in
    mkAro (tbl a') (pm a') nw (elog a') (diverged a') (errs a').

  Inductive op :=
  | OAdd (pfx : N) (p : path)
  | ORemove (pfx : N) (p : path)
  | OReplace (nw : P) (view : list (N * list path)).

  Definition step (a : st) (o : op) : st :=
    match o with
    | OAdd pfx p => add_path a pfx p
    | ORemove pfx p => fst (remove_path a pfx p)
    | OReplace nw view => replace_chain a nw view
    end.

  Definition init (c : P) : st := mkAro [] pidm_empty c [] false 0.

  Definition run (c : P) (ops : list op) : st := fold_left step ops (init c).
End ARO.

Arguments OAdd {P}.
Arguments ORemove {P}.
Arguments OReplace {P}.

(* observables *)
Definition route_count {P : Type} (a : aro P) : N := N.of_nat (length (nodup N.eq_dec (map fst (tbl a)))).
