(* Executable model of the BGP session state machine of bio-rd
   (protocols/bgp/server/fsm*.go, peer.go, peer_role.go; packet/decoder.go: decodeHeader, validateOpen,
   decodeNotificationMsg as far as they decide which NOTIFICATION is owed).
   No proofs in this file.

   One [step] = what fsm.run() does for one event: the current state's handler runs, returns the next
   state, and the next state's run() prologue executes at once (establishedState.run: init() unless
   ribsInitialized).  Where the Go code would dereference a nil connection the model emits [Crash]
   instead of pretending that nothing happens; theorems forbid it. *)
From Coq Require Import List NArith Bool.
Import ListNotations.
Local Open Scope N_scope.

(* ------------------------------------------------------------------ configuration *)

Inductive import_policy := ImpAccept | ImpReject | ImpRewrite.

Record cfg := {
  c_las : N;            (* PeerConfig.LocalAS *)
  c_pas : N;            (* PeerConfig.PeerAS *)
  c_rid : N;            (* router id *)
  c_hold : N;           (* configured hold time, seconds *)
  c_v4 : bool; c_v6 : bool;                 (* address families configured *)
  c_apr4 : bool; c_aps4 : bool;             (* add-path receive / send (not BestOnly) IPv4 *)
  c_apr6 : bool; c_aps6 : bool;
  c_mp4 : bool;         (* AdvertiseIPv4MultiProtocol *)
  c_nx4 : bool;         (* IPv4.NextHopExtended *)
  c_role : N;           (* PeerConfig.PeerRole: 0 off, 1 provider, 2 RS, 3 RS-client, 4 customer, 5 peer *)
  c_strict : bool;
  c_rr : bool; c_cluster : N;               (* route reflector client, cluster id *)
  c_imp : import_policy;
  c_passive : bool      (* FSM created for an accepted connection: starts in Active *)
}.

Definition ebgp (c : cfg) : bool := negb (c_las c =? c_pas c).
Definition role_enabled (c : cfg) : bool := (1 <=? c_role c) && (c_role c <=? 5).

(* peer_role.go: translatePeerRole (configuration constant -> RFC 9234 value) *)
Definition wire_role (r : N) : N :=
  match r with
  | 1 => 0 | 2 => 1 | 3 => 2 | 4 => 3 | 5 => 4
  | _ => 255
  end.

(* fsm_open_sent.go: isPeerRelationship{ProviderClient,RSClientRS,PeerPeer} *)
Definition roles_compatible (loc rem : N) : bool :=
  ((loc =? 0) && (rem =? 3)) || ((loc =? 3) && (rem =? 0)) ||
  ((loc =? 2) && (rem =? 1)) || ((loc =? 1) && (rem =? 2)) ||
  ((loc =? 4) && (rem =? 4)).

(* ------------------------------------------------------------------ messages *)

Inductive cap :=
| CapASN4 (asn : N)
| CapMP (afi safi : N)
| CapAddPath (afi safi sr : N)      (* one tuple; sr: 1 receive, 2 send, 3 both *)
| CapRole (r : N)
| CapExtNH (afi safi nhafi : N)     (* extended next hop encoding tuple *)
| CapUnknown (code : N).

Record open_msg := { o_ver : N; o_asn : N; o_hold : N; o_id : N; o_caps : list cap }.

(* What the peer transmits.  MHeader is an arbitrary header (marker intact or not, any 16-bit length,
   any type) followed by [avail] zero octets after which the peer stops sending. *)
Inductive msg :=
| MKeepalive
| MOpen (o : open_msg)
| MUpdate (ann wd : list N)
| MPoison (rid : N) (by_asn : bool) (v : N)   (* UPDATE announcing route rid with v in its AS_PATH (by_asn) or CLUSTER_LIST *)
| MNotification (code sub : N)
| MHeader (marker_ok : bool) (len typ avail : N)
| MTrunc (n : N)                    (* n < 19 octets of a header *)
| MBadBody.                         (* well-framed, body rejected by the decoder without a BGPError *)

Definition MinLen : N := 19.
Definition MaxLen : N := 4096.

(* fsm.go: recvMsg.  buffer := make([]byte, MaxLen); ReadFull(buffer[0:MinLen]); l := length field;
   [guard added by the fix]; ReadFull(buffer[MinLen:l]).  A Go slice expression buffer[lo:hi] panics
   unless lo <= hi <= cap. *)
Inductive frame_result := FrPanic | FrReadErr | FrFrame.

Definition slice_in_range (lo hi cp : N) : bool := (lo <=? hi) && (hi <=? cp).

Definition recv_msg (len avail : N) : frame_result :=
  if (len <? MinLen) || (MaxLen <? len) then FrFrame        (* header handed to the decoder as it is *)
  else if negb (slice_in_range MinLen len MaxLen) then FrPanic
  else if avail <? len - MinLen then FrReadErr
  else FrFrame.

(* the same function without the guard: what the code did before the fix (used for the refutation witness) *)
Definition recv_msg_unguarded (len avail : N) : frame_result :=
  if negb (slice_in_range MinLen len MaxLen) then FrPanic
  else if avail <? len - MinLen then FrReadErr
  else FrFrame.

(* packet/decoder.go: decodeHeader.  None = header accepted; Some (code, subcode) = BGPError *)
Definition decode_header (marker_ok : bool) (len typ : N) : option (N * N) :=
  if negb marker_ok then Some (1, 1)                                   (* Connection Not Synchronized *)
  else if (len <? MinLen) || (MaxLen <? len) then Some (1, 2)          (* Bad Message Length *)
  else if (typ =? 0) || (4 <? typ) then Some (1, 3)                    (* Bad Message Type *)
  else if ((typ =? 1) && (len <? 29)) || ((typ =? 2) && (len <? 23)) ||
          ((typ =? 3) && (len <? 21)) || ((typ =? 4) && negb (len =? 19))
       then Some (1, 2)
  else None.

(* packet/decoder.go: validateOpen *)
Definition validate_open (o : open_msg) : option (N * N) :=
  if negb (o_ver o =? 4) then Some (2, 1)                              (* Unsupported Version Number *)
  else if o_id o =? 0 then Some (2, 3)                                 (* Bad BGP Identifier *)
  else if (o_hold o =? 1) || (o_hold o =? 2) then Some (2, 6)          (* Unacceptable Hold Time *)
  else None.

(* packet/decoder.go: decodeNotificationMsg accepts these (code, subcode) pairs only *)
Definition notification_valid (code sub : N) : bool :=
  match code with
  | 1 => (1 <=? sub) && (sub <=? 3)
  | 2 => (1 <=? sub) && (sub <=? 6) && negb (sub =? 5)
  | 3 => (1 <=? sub) && (sub <=? 11) && negb (sub =? 7)
  | 4 => sub =? 0
  | 5 => sub =? 0
  | 6 => sub <=? 8
  | _ => false
  end.

Inductive decoded :=
| DKeepalive
| DOpen (o : open_msg)
| DUpdate (ann wd : list N)
| DPoison (rid : N) (by_asn : bool) (v : N)
| DNotification (code sub : N)
| DErr (notif : option (N * N)).     (* decode error; Some = the error is a BGPError with these codes *)

(* packet.Decode on the frame recvMsg produced (the 4096-octet buffer, zero beyond what was read) *)
Definition decode (m : msg) : decoded :=
  match m with
  | MKeepalive => DKeepalive
  | MOpen o => match validate_open o with Some e => DErr (Some e) | None => DOpen o end
  | MUpdate ann wd => DUpdate ann wd
  | MPoison r b v => DPoison r b v
  | MNotification c s => if notification_valid c s then DNotification c s else DErr None
  | MHeader mk len typ _ =>
      match decode_header mk len typ with
      | Some e => DErr (Some e)
      | None =>
          if typ =? 4 then DKeepalive
          else if typ =? 1 then DErr (Some (2, 1))      (* all-zero OPEN body: version 0 *)
          else if typ =? 3 then DErr None                (* all-zero NOTIFICATION body: code 0 *)
          else DUpdate [] []                             (* len = 23 (the harness sends nothing else): empty UPDATE *)
      end
  | MTrunc _ => DErr None
  | MBadBody => DErr None
  end.

(* octets on the wire of each message: (length field, octets following the header) *)
Definition frame_of (m : msg) : frame_result :=
  match m with
  | MHeader _ len _ avail => recv_msg len avail
  | MTrunc _ => FrReadErr
  | _ => FrFrame        (* well-framed by construction: 19 <= len <= 4096 and avail = len - 19 *)
  end.

(* ------------------------------------------------------------------ session state *)

Inductive sname := Idle | Connect | Active | OpenSent | OpenConfirm | Established | Ceased.

Definition sname_eqb (a b : sname) : bool :=
  match a, b with
  | Idle, Idle | Connect, Connect | Active, Active | OpenSent, OpenSent
  | OpenConfirm, OpenConfirm | Established, Established | Ceased, Ceased => true
  | _, _ => false
  end.

Inductive conn := NoConn | ConnOpen (broken : bool) | ConnClosed.

(* what OPEN processing sets (FSM.holdTime, keepaliveTime, keepaliveTimer != nil, supports4OctetASN,
   per family addPathRX / !addPathTX.BestOnly / multiProtocol, peer.peerRoleAdvByPeer / peerRoleRemote) *)
Record neg := {
  n_hold : N; n_katime : N (* ms *); n_katimer : bool; n_asn4 : bool;
  n_rx4 : bool; n_tx4 : bool; n_mp4 : bool;
  n_rx6 : bool; n_tx6 : bool; n_mp6 : bool;
  n_roleadv : bool; n_roleremote : N
}.

Record sess := {
  s_st : sname;
  s_att : bool;          (* FSM.ribsInitialized *)
  s_conn : conn;         (* FSM.con: nil / open (writes fail?) / closed *)
  s_neg : neg;
  s_retry : N;           (* connectRetryCounter *)
  s_upd : N;             (* counters.updatesReceived *)
  s_imp : import_policy  (* the import filter chain in force (fsmAddressFamily.importFilterChain) *)
}.

Definition neg0 : neg :=
  {| n_hold := 0; n_katime := 0; n_katimer := false; n_asn4 := false;
     n_rx4 := false; n_tx4 := false; n_mp4 := false; n_rx6 := false; n_tx6 := false; n_mp6 := false;
     n_roleadv := false; n_roleremote := 0 |}.

Definition init_sess (c : cfg) : sess :=
  {| s_st := if c_passive c then Active else Idle; s_att := false; s_conn := NoConn;
     s_neg := neg0; s_retry := 0; s_upd := 0; s_imp := c_imp c |}.

Definition set_st (s : sess) (x : sname) : sess :=
  {| s_st := x; s_att := s_att s; s_conn := s_conn s; s_neg := s_neg s; s_retry := s_retry s; s_upd := s_upd s; s_imp := s_imp s |}.
Definition set_att (s : sess) (x : bool) : sess :=
  {| s_st := s_st s; s_att := x; s_conn := s_conn s; s_neg := s_neg s; s_retry := s_retry s; s_upd := s_upd s; s_imp := s_imp s |}.
Definition set_conn (s : sess) (x : conn) : sess :=
  {| s_st := s_st s; s_att := s_att s; s_conn := x; s_neg := s_neg s; s_retry := s_retry s; s_upd := s_upd s; s_imp := s_imp s |}.
Definition set_neg (s : sess) (x : neg) : sess :=
  {| s_st := s_st s; s_att := s_att s; s_conn := s_conn s; s_neg := x; s_retry := s_retry s; s_upd := s_upd s; s_imp := s_imp s |}.
Definition set_retry (s : sess) (x : N) : sess :=
  {| s_st := s_st s; s_att := s_att s; s_conn := s_conn s; s_neg := s_neg s; s_retry := x; s_upd := s_upd s; s_imp := s_imp s |}.
Definition set_upd (s : sess) (x : N) : sess :=
  {| s_st := s_st s; s_att := s_att s; s_conn := s_conn s; s_neg := s_neg s; s_retry := s_retry s; s_upd := x; s_imp := s_imp s |}.
Definition set_imp (s : sess) (x : import_policy) : sess :=
  {| s_st := s_st s; s_att := s_att s; s_conn := s_conn s; s_neg := s_neg s; s_retry := s_retry s; s_upd := s_upd s; s_imp := x |}.
Definition bump (s : sess) : sess := set_retry s (s_retry s + 1).

(* ------------------------------------------------------------------ events and outputs *)

Inductive ev :=
| EAdmin (code : N)        (* 1 ManualStart 2 ManualStop 3 AutomaticStart 8 AutomaticStop 100 Cease *)
| ETcpUp (broken : bool)   (* a connection is handed over on conCh; broken: its writes fail *)
| EHoldPoll (expired : bool)
| EKeepaliveTimer
| EConnectRetry
| EBreak                   (* writes on the current connection start to fail *)
| EReplaceImport (p : import_policy)   (* bgpServer.ReplaceImportFilterChain on the running session *)
| EReplaceExport                       (* bgpServer.ReplaceExportFilterChain *)
| EMsg (m : msg).

Inductive out :=
| SentOpen
| SentKeepalive
| SentNotification (code sub : N)
| Closed                   (* con.Close() *)
| Init                     (* establishedState.init *)
| Uninit                   (* establishedState.uninit *)
| ProcessedUpdate (ann wd : list N)
| ProcessedPoison (rid : N) (by_asn : bool) (v : N)
| ReplacedImport (p : import_policy)   (* the import chain was replaced by p *)
| ReadErr                  (* recvMsg returned an error (nobody listens on msgRecvFailCh) *)
| Crash.                   (* a Go panic: slice out of range in recvMsg, nil connection *)

(* fsm.con.Write(m) *)
Definition wr (s : sess) (m : out) : list out :=
  match s_conn s with
  | NoConn => [Crash]
  | ConnOpen false => [m]
  | _ => []
  end.
Definition wr_ok (s : sess) : bool :=
  match s_conn s with ConnOpen false => true | _ => false end.

(* fsm.con.Close() *)
Definition cl (s : sess) : sess * list out :=
  match s_conn s with
  | NoConn => (s, [Crash])
  | _ => (set_conn s ConnClosed, [Closed])
  end.

(* establishedState.uninit: dispose the families, reset the counters, ribsInitialized = false *)
Definition uninit (s : sess) : sess * list out := (set_upd (set_att s false) 0, [Uninit]).

(* common tail of most error exits: con.Close(); connectRetryCounter++; -> Idle *)
Definition close_bump_idle (s : sess) (pre : list out) : sess * list out :=
  let (s1, o1) := cl s in (set_st (bump s1) Idle, pre ++ o1).

(* ------------------------------------------------------------------ OPEN processing (fsm_open_sent.go) *)

Definition fam_cfg (c : cfg) (afi : N) : bool :=
  if afi =? 1 then c_v4 c else if afi =? 2 then c_v6 c else false.

Definition set_rx (n : neg) (afi : N) : neg :=
  if afi =? 1 then
    {| n_hold := n_hold n; n_katime := n_katime n; n_katimer := n_katimer n; n_asn4 := n_asn4 n;
       n_rx4 := true; n_tx4 := n_tx4 n; n_mp4 := n_mp4 n; n_rx6 := n_rx6 n; n_tx6 := n_tx6 n; n_mp6 := n_mp6 n;
       n_roleadv := n_roleadv n; n_roleremote := n_roleremote n |}
  else
    {| n_hold := n_hold n; n_katime := n_katime n; n_katimer := n_katimer n; n_asn4 := n_asn4 n;
       n_rx4 := n_rx4 n; n_tx4 := n_tx4 n; n_mp4 := n_mp4 n; n_rx6 := true; n_tx6 := n_tx6 n; n_mp6 := n_mp6 n;
       n_roleadv := n_roleadv n; n_roleremote := n_roleremote n |}.
Definition set_tx (n : neg) (afi : N) : neg :=
  if afi =? 1 then
    {| n_hold := n_hold n; n_katime := n_katime n; n_katimer := n_katimer n; n_asn4 := n_asn4 n;
       n_rx4 := n_rx4 n; n_tx4 := true; n_mp4 := n_mp4 n; n_rx6 := n_rx6 n; n_tx6 := n_tx6 n; n_mp6 := n_mp6 n;
       n_roleadv := n_roleadv n; n_roleremote := n_roleremote n |}
  else
    {| n_hold := n_hold n; n_katime := n_katime n; n_katimer := n_katimer n; n_asn4 := n_asn4 n;
       n_rx4 := n_rx4 n; n_tx4 := n_tx4 n; n_mp4 := n_mp4 n; n_rx6 := n_rx6 n; n_tx6 := true; n_mp6 := n_mp6 n;
       n_roleadv := n_roleadv n; n_roleremote := n_roleremote n |}.
Definition set_mp (n : neg) (afi : N) : neg :=
  if afi =? 1 then
    {| n_hold := n_hold n; n_katime := n_katime n; n_katimer := n_katimer n; n_asn4 := n_asn4 n;
       n_rx4 := n_rx4 n; n_tx4 := n_tx4 n; n_mp4 := true; n_rx6 := n_rx6 n; n_tx6 := n_tx6 n; n_mp6 := n_mp6 n;
       n_roleadv := n_roleadv n; n_roleremote := n_roleremote n |}
  else
    {| n_hold := n_hold n; n_katime := n_katime n; n_katimer := n_katimer n; n_asn4 := n_asn4 n;
       n_rx4 := n_rx4 n; n_tx4 := n_tx4 n; n_mp4 := n_mp4 n; n_rx6 := n_rx6 n; n_tx6 := n_tx6 n; n_mp6 := true;
       n_roleadv := n_roleadv n; n_roleremote := n_roleremote n |}.
Definition set_asn4 (n : neg) : neg :=
  {| n_hold := n_hold n; n_katime := n_katime n; n_katimer := n_katimer n; n_asn4 := true;
     n_rx4 := n_rx4 n; n_tx4 := n_tx4 n; n_mp4 := n_mp4 n; n_rx6 := n_rx6 n; n_tx6 := n_tx6 n; n_mp6 := n_mp6 n;
     n_roleadv := n_roleadv n; n_roleremote := n_roleremote n |}.
Definition set_role (n : neg) (r : N) : neg :=
  {| n_hold := n_hold n; n_katime := n_katime n; n_katimer := n_katimer n; n_asn4 := n_asn4 n;
     n_rx4 := n_rx4 n; n_tx4 := n_tx4 n; n_mp4 := n_mp4 n; n_rx6 := n_rx6 n; n_tx6 := n_tx6 n; n_mp6 := n_mp6 n;
     n_roleadv := true; n_roleremote := r |}.

Definition cfg_recv (c : cfg) (afi : N) : bool := if afi =? 1 then c_apr4 c else c_apr6 c.
Definition cfg_send (c : cfg) (afi : N) : bool := if afi =? 1 then c_aps4 c else c_aps6 c.

(* peer.ipv4MultiProtocolAdvertised as newPeer sets it: inside `if c.IPv4 != nil`, by the NextHopExtended branch
   and by the AdvertiseIPv4MultiProtocol branch *)
Definition mp4_flag (c : cfg) : bool := c_v4 c && (c_nx4 c || c_mp4 c).

(* state of the capability loop: negotiated options, peer AS as resolved so far, "multiple roles" flag *)
Record capst := { k_neg : neg; k_asn : N; k_multi : bool }.

(* processCapability *)
Definition process_cap (c : cfg) (k : capst) (x : cap) : capst :=
  match x with
  | CapAddPath afi safi sr =>
      if negb (safi =? 1) || negb (fam_cfg c afi) then k
      else
        let n := k_neg k in
        let n1 := if ((sr =? 1) || (sr =? 3)) && cfg_send c afi then set_tx n afi else n in   (* peer receives: we may send *)
        let n2 := if ((sr =? 2) || (sr =? 3)) && cfg_recv c afi then set_rx n1 afi else n1 in (* peer sends: we may receive *)
        {| k_neg := n2; k_asn := k_asn k; k_multi := k_multi k |}
  | CapASN4 a =>
      {| k_neg := set_asn4 (k_neg k); k_asn := if k_asn k =? 23456 then a else k_asn k; k_multi := k_multi k |}
  | CapMP afi safi =>
      if negb (safi =? 1) then k
      else if (afi =? 1) && negb (mp4_flag c) then k
      else if fam_cfg c afi then {| k_neg := set_mp (k_neg k) afi; k_asn := k_asn k; k_multi := k_multi k |}
      else k
  | CapRole r =>
      if negb (role_enabled c) then k
      else {| k_neg := set_role (k_neg k) r; k_asn := k_asn k;
              k_multi := k_multi k || (n_roleadv (k_neg k) && negb (n_roleremote (k_neg k) =? r)) |}
  | CapExtNH _ _ _ => k
  | CapUnknown _ => k
  end.

(* resetNegotiatedOptions + hold time negotiation at the top of handleOpenMessage *)
Definition neg_start (c : cfg) (o : open_msg) : neg :=
  let h := N.min (c_hold c) (o_hold o) in
  {| n_hold := h; n_katime := if h =? 0 then 0 else (h * 1000) / 3; n_katimer := negb (h =? 0); n_asn4 := false;
     n_rx4 := false; n_tx4 := false; n_mp4 := false; n_rx6 := false; n_tx6 := false; n_mp6 := false;
     n_roleadv := false; n_roleremote := 0 |}.

Definition process_caps (c : cfg) (o : open_msg) : capst :=
  fold_left (process_cap c) (o_caps o) {| k_neg := neg_start c o; k_asn := o_asn o; k_multi := false |}.

(* validatePeerRole: true = acceptable *)
Definition role_ok (c : cfg) (k : capst) : bool :=
  if negb (role_enabled c) then true
  else if c_strict c && negb (n_roleadv (k_neg k)) then false
  else if negb (n_roleadv (k_neg k)) then true
  else if k_multi k then false
  else roles_compatible (wire_role (c_role c)) (n_roleremote (k_neg k)).

Inductive open_verdict := OpenAccept | OpenReject (code sub : N).

(* handleOpenMessage after the capabilities were processed *)
Definition open_verdict_of (c : cfg) (k : capst) : open_verdict :=
  if negb (k_asn k =? c_pas c) then OpenReject 2 2                       (* Bad Peer AS *)
  else if ebgp c && negb (role_ok c k) then OpenReject 2 11              (* Role Mismatch *)
  else OpenAccept.

(* the OPEN this speaker sends (fsm.openMessage + peer.go: newPeer's capability list) *)
Definition add_path_cap (recv send : bool) (afi : N) : list cap :=
  let v := (if recv then 1 else 0) + (if send then 2 else 0) in
  if v =? 0 then [] else [CapAddPath afi 1 v].

Definition sent_open (c : cfg) : open_msg :=
  {| o_ver := 4;
     o_asn := if 65535 <? c_las c then 23456 else c_las c;
     o_hold := c_hold c;
     o_id := c_rid c;
     o_caps :=
       (if c_v4 c then add_path_cap (c_apr4 c) (c_aps4 c) 1 else []) ++
       (if c_v6 c then add_path_cap (c_apr6 c) (c_aps6 c) 2 else []) ++
       [CapASN4 (c_las c)] ++
       (if c_v4 c && c_nx4 c then [CapExtNH 1 1 2; CapMP 1 1] else []) ++
       (if c_v4 c && c_mp4 c then [CapMP 1 1] else []) ++
       (if c_v6 c then [CapMP 2 1] else []) ++
       (if ebgp c && role_enabled c then [CapRole (wire_role (c_role c))] else []) |}.

(* ------------------------------------------------------------------ per-state handlers *)

(* openSentState.openMsgReceived + handleOpenMessage (no second FSM of the peer: collisionHandling = false) *)
Definition open_received (c : cfg) (s : sess) (o : open_msg) : sess * list out :=
  if negb (ebgp c) && (c_rid c =? o_id o) then
    let (s1, o1) := cl s in (set_st s1 Idle, wr s (SentNotification 2 3) ++ o1)
  else if negb (wr_ok s) then
    (* sendKeepalive failed: tcpFailure *)
    let (s1, o1) := cl s in (set_st s1 Active, (match s_conn s with NoConn => [Crash] | _ => [] end) ++ o1)
  else
    let k := process_caps c o in
    let s1 := set_neg s (k_neg k) in
    match open_verdict_of c k with
    | OpenReject code sub =>
        let (s2, o2) := cl s1 in (set_st s2 Idle, [SentKeepalive] ++ wr s1 (SentNotification code sub) ++ o2)
    | OpenAccept => (set_st s1 OpenConfirm, [SentKeepalive])
    end.

(* the decode-error exit shared by OpenSent and OpenConfirm *)
Definition decode_error_exit (s : sess) (e : option (N * N)) : sess * list out :=
  close_bump_idle s (match e with Some (c0, s0) => wr s (SentNotification c0 s0) | None => [] end).

Definition hold_expired (s : sess) (expired : bool) : bool := expired || (n_hold (s_neg s) =? 0).

Definition handle (c : cfg) (s : sess) (e : ev) : sess * list out :=
  match s_st s with
  | Ceased => (s, [])
  | Idle =>
      match e with
      | EAdmin code =>
          if (code =? 1) || (code =? 3) then (set_st (set_retry s 0) Connect, [])
          else if code =? 100 then (set_st s Ceased, [])
          else (s, [])
      | _ => (s, [])
      end
  | Connect =>
      match e with
      | EAdmin code =>
          if code =? 2 then (set_st (set_retry s 0) Idle, [])
          else if code =? 100 then (set_st s Ceased, [])
          else (s, [])
      | ETcpUp broken =>
          let s1 := set_conn s (ConnOpen broken) in
          if broken then (set_st s1 Idle, []) else (set_st s1 OpenSent, [SentOpen])
      | _ => (s, [])
      end
  | Active =>
      match e with
      | EAdmin code =>
          if code =? 2 then
            let (s1, o1) := match s_conn s with NoConn => (s, []) | _ => cl s end in
            (set_st (set_retry s1 0) Idle, o1)
          else if code =? 100 then
            let (s1, o1) := match s_conn s with NoConn => (s, []) | _ => cl s end in
            (set_st s1 Ceased, o1)
          else (s, [])
      | EConnectRetry => (set_st s Connect, [])
      | ETcpUp broken =>
          let s1 := set_conn s (ConnOpen broken) in
          if broken then (set_st (bump s1) Idle, []) else (set_st s1 OpenSent, [SentOpen])
      | _ => (s, [])
      end
  | OpenSent =>
      match e with
      | EAdmin code =>
          if code =? 2 then
            let (s1, o1) := cl s in (set_st (set_retry s1 0) Idle, wr s (SentNotification 6 0) ++ o1)
          else if code =? 8 then
            close_bump_idle s (wr s (SentNotification 6 0))
          else if code =? 100 then
            let (s1, o1) := cl s in (set_st s1 Ceased, wr s (SentNotification 6 0) ++ o1)
          else (s, [])
      | EHoldPoll expired =>
          if hold_expired s expired then close_bump_idle s (wr s (SentNotification 4 0)) else (s, [])
      | EMsg m =>
          match decode m with
          | DErr e0 => decode_error_exit s e0
          | DNotification code _ =>
              let (s1, o1) := cl s in (set_st (if code =? 1 then s1 else bump s1) Idle, o1)
          | DOpen o => open_received c s o
          | _ => close_bump_idle s (wr s (SentNotification 5 0))
          end
      | _ => (s, [])
      end
  | OpenConfirm =>
      match e with
      | EAdmin code =>
          if code =? 2 then
            let (s1, o1) := cl s in (set_st (set_retry s1 0) Idle, wr s (SentNotification 6 0) ++ o1)
          else if code =? 100 then
            let (s1, o1) := cl s in (set_st s1 Ceased, wr s (SentNotification 6 0) ++ o1)
          else (s, [])
      | EHoldPoll expired =>
          if hold_expired s expired then close_bump_idle s (wr s (SentNotification 4 0)) else (s, [])
      | EKeepaliveTimer =>
          if negb (n_katimer (s_neg s)) then (s, [])
          else if wr_ok s then (s, [SentKeepalive])
          else close_bump_idle s (match s_conn s with NoConn => [Crash] | _ => [] end)
      | EMsg m =>
          match decode m with
          | DErr e0 => decode_error_exit s e0
          | DNotification code _ =>
              let (s1, o1) := cl s in (set_st (if code =? 1 then s1 else bump s1) Idle, o1)
          | DKeepalive => (set_st s Established, [])
          | _ => close_bump_idle s (wr s (SentNotification 5 0))
          end
      | _ => (s, [])
      end
  | Established =>
      match e with
      | EAdmin code =>
          if code =? 2 then
            let (s1, o1) := uninit s in
            let (s2, o2) := cl s1 in (set_st (set_retry s2 0) Idle, wr s (SentNotification 6 0) ++ o1 ++ o2)
          else if code =? 8 then
            let (s1, o1) := uninit s in close_bump_idle s1 (wr s (SentNotification 6 0) ++ o1)
          else if code =? 100 then
            let (s1, o1) := uninit s in
            let (s2, o2) := cl s1 in (set_st s2 Ceased, wr s (SentNotification 6 0) ++ o1 ++ o2)
          else (s, [])
      | EHoldPoll expired =>
          if n_katimer (s_neg s) && hold_expired s expired then
            let (s1, o1) := uninit s in close_bump_idle s1 (wr s (SentNotification 4 0) ++ o1)
          else (s, [])
      | EKeepaliveTimer =>
          if negb (n_katimer (s_neg s)) then (s, [])
          else if wr_ok s then (s, [SentKeepalive])
          else let (s1, o1) := uninit s in
               close_bump_idle s1 ((match s_conn s with NoConn => [Crash] | _ => [] end) ++ o1)
      | EMsg m =>
          match decode m with
          | DErr e0 =>
              let pre := match e0, s_conn s with
                         | Some (c0, s0), NoConn => []           (* if s.fsm.con != nil *)
                         | Some (c0, s0), _ => wr s (SentNotification c0 s0)
                         | None, _ => []
                         end in
              let (s1, o1) := uninit s in
              match s_conn s1 with
              | NoConn => (set_st (bump s1) Idle, pre ++ o1)
              | _ => close_bump_idle s1 (pre ++ o1)
              end
          | DNotification _ _ =>
              let (s1, o1) := uninit s in close_bump_idle s1 o1
          | DUpdate ann wd => (set_upd s (s_upd s + 1), [ProcessedUpdate ann wd])
          | DPoison r b v => (set_upd s (s_upd s + 1), [ProcessedPoison r b v])
          | DKeepalive => (s, [])
          | DOpen _ =>
              let (s1, o1) := uninit s in close_bump_idle s1 (wr s (SentNotification 5 0) ++ o1)
          end
      | _ => (s, [])
      end
  end.

(* run() prologue of the state that was just entered: establishedState.run calls init() unless ribsInitialized *)
Definition enter (s : sess) : sess * list out :=
  if sname_eqb (s_st s) Established && negb (s_att s) then (set_att s true, [Init]) else (s, []).

Definition listens (s : sess) : bool :=
  match s_st s with OpenSent | OpenConfirm | Established => true | _ => false end.

(* One event as the daemon experiences it.  Framing comes first (recvMsg runs in the receiver goroutine,
   whatever the FSM state); events that cannot reach the current state's select are dropped. *)
Definition step (c : cfg) (s : sess) (e : ev) : sess * list out :=
  match s_st s with
  | Ceased => (s, [])
  | _ =>
    match e with
    | EBreak =>
        (match s_conn s with ConnOpen _ => set_conn s (ConnOpen true) | _ => s end, [])
    | EReplaceImport p => (set_imp s p, [ReplacedImport p])   (* no FSM event: peer.replaceImportFilterChain *)
    | EReplaceExport => (s, [])
    | EMsg m =>
        match frame_of m with
        | FrPanic => (set_st s Ceased, [Crash])
        | FrReadErr => (s, [ReadErr])
        | FrFrame =>
            if listens s && (match s_conn s with ConnOpen _ => true | _ => false end) then
              let r1 := handle c s e in
              let r2 := enter (fst r1) in (fst r2, snd r1 ++ snd r2)
            else (s, [])
        end
    | _ =>
        let r1 := handle c s e in
        let r2 := enter (fst r1) in (fst r2, snd r1 ++ snd r2)
    end
  end.

Fixpoint run (c : cfg) (s : sess) (es : list ev) : sess * list (list out) :=
  match es with
  | [] => (s, [])
  | e :: r =>
      let (s1, o1) := step c s e in
      let (s2, os) := run c s1 r in (s2, o1 :: os)
  end.

Definition final (c : cfg) (es : list ev) : sess := fst (run c (init_sess c) es).

(* ------------------------------------------------------------------ the speaker: sessions sharing one VRF *)

(* Loc-RIB entry: (session, route id, rewritten by the import policy?) *)
Definition rib_entry := (N * N * bool)%type.

Record sys := {
  y_sess : list (cfg * sess);
  y_rib : list rib_entry;                (* IPv4 unicast Loc-RIB *)
  y_adjin : list (N * list N);           (* per session: route ids in its IPv4 Adj-RIB-In *)
  y_hidden : list (N * N);               (* (session, route) pairs of Adj-RIB-In paths hidden by loop detection *)
  y_asn : list N;                        (* VRF contributing ASNs (multiset) *)
  y_cid : list N;                        (* VRF contributing cluster ids (multiset) *)
  y_cl4 : N; y_cl6 : N                   (* Adj-RIB-Outs registered with the IPv4 / IPv6 Loc-RIB *)
}.

(* refcounter.RefcounterUint32 is a multiset of values: Add inserts one occurrence, Remove deletes one
   (nothing if absent), IsPresent = at least one occurrence *)
Definition rc_add (l : list N) (k : N) : list N := k :: l.
Fixpoint rc_remove (l : list N) (k : N) : list N :=
  match l with
  | [] => []
  | k' :: r => if k' =? k then r else k' :: rc_remove r k
  end.
Fixpoint rc_count (l : list N) (k : N) : N :=
  match l with
  | [] => 0
  | k' :: r => if k' =? k then 1 + rc_count r k else rc_count r k
  end.

Definition cluster_of (c : cfg) : N := if c_cluster c =? 0 then c_rid c else c_cluster c.
Definition nfam (c : cfg) : list bool := (if c_v4 c then [true] else []) ++ (if c_v6 c then [true] else []).

Fixpoint alist_set (l : list (N * list N)) (k : N) (v : list N) : list (N * list N) :=
  match l with
  | [] => [(k, v)]
  | (k', v') :: r => if k' =? k then (k, v) :: r else (k', v') :: alist_set r k v
  end.
Fixpoint alist_get (l : list (N * list N)) (k : N) : list N :=
  match l with
  | [] => []
  | (k', v') :: r => if k' =? k then v' else alist_get r k
  end.

Definition rib_without (rib : list rib_entry) (sid rid : N) : list rib_entry :=
  filter (fun x => match x with (s0, r0, _) => negb ((s0 =? sid) && (r0 =? rid)) end) rib.
Definition rib_without_sess (rib : list rib_entry) (sid : N) : list rib_entry :=
  filter (fun x => match x with (s0, _, _) => negb (s0 =? sid) end) rib.
Definition ids_without (l : list N) (rid : N) : list N := filter (fun x => negb (x =? rid)) l.

Definition hid_without (h : list (N * N)) (sid rid : N) : list (N * N) :=
  filter (fun x => negb ((fst x =? sid) && (snd x =? rid))) h.
Definition hid_without_sess (h : list (N * N)) (sid : N) : list (N * N) :=
  filter (fun x => negb (fst x =? sid)) h.
Definition is_hidden (h : list (N * N)) (sid rid : N) : bool :=
  existsb (fun x => (fst x =? sid) && (snd x =? rid)) h.

(* what the import policy makes of an eligible path: nothing, or an entry (rewritten or not) *)
Definition imported (imp : import_policy) (sid rid : N) : list rib_entry :=
  match imp with
  | ImpReject => []
  | ImpAccept => [(sid, rid, false)]
  | ImpRewrite => [(sid, rid, true)]
  end.

(* fsmAddressFamily.init for every configured family *)
Definition apply_init (c : cfg) (sid : N) (y : sys) : sys :=
  {| y_sess := y_sess y; y_rib := y_rib y;
     y_adjin := alist_set (y_adjin y) sid [];
     y_hidden := y_hidden y;
     y_asn := fold_left (fun l _ => rc_add l (c_las c)) (nfam c) (y_asn y);
     y_cid := if c_rr c then fold_left (fun l _ => rc_add l (cluster_of c)) (nfam c) (y_cid y) else y_cid y;
     y_cl4 := if c_v4 c then y_cl4 y + 1 else y_cl4 y;
     y_cl6 := if c_v6 c then y_cl6 y + 1 else y_cl6 y |}.

(* fsmAddressFamily.dispose for every configured family (only if initialised) *)
Definition apply_uninit (c : cfg) (sid : N) (was_att : bool) (y : sys) : sys :=
  if negb was_att then y else
  {| y_sess := y_sess y;
     y_rib := rib_without_sess (y_rib y) sid;
     y_adjin := alist_set (y_adjin y) sid [];
     y_hidden := hid_without_sess (y_hidden y) sid;
     y_asn := fold_left (fun l _ => rc_remove l (c_las c)) (nfam c) (y_asn y);
     y_cid := if c_rr c then fold_left (fun l _ => rc_remove l (cluster_of c)) (nfam c) (y_cid y) else y_cid y;
     y_cl4 := if c_v4 c then y_cl4 y - 1 else y_cl4 y;
     y_cl6 := if c_v6 c then y_cl6 y - 1 else y_cl6 y |}.

(* fsmAddressFamily.processUpdate for the harness's IPv4 routes: withdraws, then announcements;
   imp = the import policy in force *)
Definition apply_withdraw (sid : N) (y : sys) (rid : N) : sys :=
  {| y_sess := y_sess y; y_rib := rib_without (y_rib y) sid rid;
     y_adjin := alist_set (y_adjin y) sid (ids_without (alist_get (y_adjin y) sid) rid);
     y_hidden := hid_without (y_hidden y) sid rid;
     y_asn := y_asn y; y_cid := y_cid y; y_cl4 := y_cl4 y; y_cl6 := y_cl6 y |}.
Definition apply_announce (imp : import_policy) (sid : N) (y : sys) (rid : N) : sys :=
  {| y_sess := y_sess y;
     y_rib := rib_without (y_rib y) sid rid ++ imported imp sid rid;
     y_adjin := alist_set (y_adjin y) sid (ids_without (alist_get (y_adjin y) sid) rid ++ [rid]);
     y_hidden := hid_without (y_hidden y) sid rid;
     y_asn := y_asn y; y_cid := y_cid y; y_cl4 := y_cl4 y; y_cl6 := y_cl6 y |}.
Definition apply_update (c : cfg) (imp : import_policy) (sid : N) (ann wd : list N) (y : sys) : sys :=
  if negb (c_v4 c) then y
  else fold_left (apply_announce imp sid) ann (fold_left (apply_withdraw sid) wd y).

(* an announcement that loop detection must hide while v is a contributing ASN (by_asn) / cluster id of
   the VRF (adjRIBIn.validatePath: ourASNsInPath, cluster list); hidden paths stay in the Adj-RIB-In only *)
Definition apply_poison (c : cfg) (imp : import_policy) (sid rid : N) (by_asn : bool) (v : N) (y : sys) : sys :=
  if negb (c_v4 c) then y else
  let hidden := if by_asn then 0 <? rc_count (y_asn y) v else 0 <? rc_count (y_cid y) v in
  {| y_sess := y_sess y;
     y_rib := rib_without (y_rib y) sid rid ++ (if hidden then [] else imported imp sid rid);
     y_adjin := alist_set (y_adjin y) sid (ids_without (alist_get (y_adjin y) sid) rid ++ [rid]);
     y_hidden := hid_without (y_hidden y) sid rid ++ (if hidden then [(sid, rid)] else []);
     y_asn := y_asn y; y_cid := y_cid y; y_cl4 := y_cl4 y; y_cl6 := y_cl6 y |}.

(* AdjRIBIn.ReplaceFilterChain on an attached session: afterwards the Loc-RIB holds, of this session,
   exactly what the new policy makes of the eligible (not hidden) paths of its Adj-RIB-In *)
Definition apply_reimport (c : cfg) (imp : import_policy) (sid : N) (att : bool) (y : sys) : sys :=
  if negb (att && c_v4 c) then y else
  {| y_sess := y_sess y;
     y_rib := rib_without_sess (y_rib y) sid ++
              flat_map (fun rid => if is_hidden (y_hidden y) sid rid then [] else imported imp sid rid)
                       (alist_get (y_adjin y) sid);
     y_adjin := y_adjin y; y_hidden := y_hidden y;
     y_asn := y_asn y; y_cid := y_cid y; y_cl4 := y_cl4 y; y_cl6 := y_cl6 y |}.

(* RIB-level effect of the outputs of one FSM step, in order.  att tracks ribsInitialized and imp the
   import policy in force while folding. *)
Fixpoint apply_outs (c : cfg) (sid : N) (att : bool) (imp : import_policy) (os : list out) (y : sys) : sys :=
  match os with
  | [] => y
  | Init :: r => apply_outs c sid true imp r (apply_init c sid y)
  | Uninit :: r => apply_outs c sid false imp r (apply_uninit c sid att y)
  | ProcessedUpdate ann wd :: r => apply_outs c sid att imp r (apply_update c imp sid ann wd y)
  | ProcessedPoison rid b v :: r => apply_outs c sid att imp r (apply_poison c imp sid rid b v y)
  | ReplacedImport p :: r => apply_outs c sid att p r (apply_reimport c p sid att y)
  | _ :: r => apply_outs c sid att imp r y
  end.

Fixpoint nth_sess (l : list (cfg * sess)) (i : nat) : option (cfg * sess) :=
  match l, i with
  | [], _ => None
  | x :: _, O => Some x
  | _ :: r, S j => nth_sess r j
  end.
Fixpoint set_nth_sess (l : list (cfg * sess)) (i : nat) (x : cfg * sess) : list (cfg * sess) :=
  match l, i with
  | [], _ => []
  | _ :: r, O => x :: r
  | y :: r, S j => y :: set_nth_sess r j x
  end.

Definition sys_step (y : sys) (sid : nat) (e : ev) : sys * list out :=
  match nth_sess (y_sess y) sid with
  | None => (y, [])
  | Some (c, s) =>
      let (s', os) := step c s e in
      let y1 := apply_outs c (N.of_nat sid) (s_att s) (s_imp s) os y in
      ({| y_sess := set_nth_sess (y_sess y1) sid (c, s'); y_rib := y_rib y1; y_adjin := y_adjin y1;
          y_hidden := y_hidden y1;
          y_asn := y_asn y1; y_cid := y_cid y1; y_cl4 := y_cl4 y1; y_cl6 := y_cl6 y1 |}, os)
  end.

Definition init_sys (cs : list cfg) : sys :=
  {| y_sess := map (fun c => (c, init_sess c)) cs; y_rib := []; y_adjin := []; y_hidden := [];
     y_asn := []; y_cid := []; y_cl4 := 0; y_cl6 := 0 |}.

Fixpoint sys_run (y : sys) (es : list (nat * ev)) : sys :=
  match es with
  | [] => y
  | (i, e) :: r => sys_run (fst (sys_step y i e)) r
  end.
