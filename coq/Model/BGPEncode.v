(* C17: executable model of the serializers of protocols/bgp/packet (update.go, path_attributes.go: Serialize*,
   nlri.go: NLRI.serialize, label.go, mp_reach_nlri.go, mp_unreach_nlri.go, encoder.go, parameters.go),
   over the message structures of Model/BGPCodec.v. The serializers ignore the Length fields and most flag
   fields of the structures and compute their own. uint8/uint16 conversions of lengths and counts are modelled
   with explicit mod, Go panics (failed type assertion on Value, nil dereference, slice bounds) as EPanic,
   "update too long" and the other refusals of SerializeUpdate as EErr. *)
From Coq Require Import List NArith Bool.
Import ListNotations.
From BioVerif Require Import Model.BGPCodec.
Local Open Scope N_scope.

Inductive eres := EOk (b : list N) | EErr | EPanic.

Record eopts := mkEOpts { useAddPath : bool; use32 : bool }.

Definition u16be (v : N) : list N := [v / 256 mod 256; v mod 256].
Definition u32be (v : N) : list N := bytes32 (v mod 4294967296).

Definition ipBytes (a : ip) : list N :=
  match a with IP4 v => bytes32 v | IP6 hi lo => bytes64 hi ++ bytes64 lo end.

(* LabelStackEntry.serialize: the low three bytes, bottom-of-stack bit or-ed into the last entry *)
Fixpoint encodeLabels (l : list N) : list N :=
  match l with
  | [] => []
  | [x] => let y := if N.odd x then x else x + 1 in [y / 65536 mod 256; y / 256 mod 256; y mod 256]
  | x :: r => [x / 65536 mod 256; x / 256 mod 256; x mod 256] ++ encodeLabels r
  end.

(* NLRI.serialize: bytes and the returned uint8 byte count; None = slice bounds out of range *)
Definition encodeNLRI (addPath : bool) (safi : N) (n : nlri) : option (list N * N) :=
  let pid := if addPath then u32be (n_id n) else [] in
  let plen := p_len (n_pfx n) in
  let labeled := safi =? 4 in
  let lenByte := if labeled then (plen + len (n_labels n) * 24) mod 256 else plen mod 256 in
  let labels := if labeled then encodeLabels (n_labels n) else [] in
  let nb := bytesInAddr plen in
  let addr := ipBytes (p_ip (n_pfx n)) in
  if len addr <? nb then None
  else Some (pid ++ [lenByte] ++ labels ++ firstn (N.to_nat nb) addr,
             (len pid + 1 + len labels + nb) mod 256).

(* a list of NLRI written one after the other (MP attributes: no budget) *)
Fixpoint encodeNLRIs (addPath : bool) (safi : N) (l : list nlri) : option (list N) :=
  match l with
  | [] => Some []
  | n :: r => match encodeNLRI addPath safi n, encodeNLRIs addPath safi r with
              | Some (b, _), Some br => Some (b ++ br)
              | _, _ => None
              end
  end.

(* serializeGeneric / the length part of serializeUnknownAttribute *)
Definition lenBytes (ext : bool) (l : N) : list N := if ext then [l / 256 mod 256; l mod 256] else [l mod 256].

Definition encodeU32s (l : list N) : list N := flat_map u32be l.

(* serializeASPath (after fix: segments without ASNs are skipped) *)
Fixpoint encodeSegments (as4 : bool) (segs : list (N * list N)) : list N * N :=
  match segs with
  | [] => ([], 0)
  | (ty, asns) :: r =>
    let '(br, lr) := encodeSegments as4 r in
    if len asns =? 0 then (br, lr)
    else
      let body := if as4 then flat_map u32be asns else flat_map (fun a => u16be (a mod 65536)) asns in
      (* length += 2 + uint16(len)*asnLength, in uint16 *)
      ([ty mod 256; len asns mod 256] ++ body ++ br,
       (2 + ((len asns mod 65536) * (if as4 then 4 else 2)) mod 65536 + lr) mod 65536)
  end.

(* Serialize of one path attribute: bytes and the returned length used for the budget; None = panic *)
Definition encodeAttr (o : eopts) (a : attr) : option (list N * N) :=
  let t := a_type a in
  if t =? 1 then match a_val a with AVOrigin v => Some ([64; 1; 1; v mod 256], 4) | _ => None end
  else if t =? 2 then
    match a_val a with
    | AVASPath segs =>
      let '(body, l) := encodeSegments (use32 o) segs in
      let ext := 255 <? l in
      Some ([if ext then 80 else 64; 2] ++ lenBytes ext l ++ body, (l + 3) mod 65536)
    | _ => None end
  else if t =? 3 then match a_val a with AVNextHop ip => Some ([64; 3; 4] ++ ipBytes ip, 7) | _ => None end
  else if t =? 4 then match a_val a with AVU32 v => Some ([128; 4; 4] ++ u32be v, 7) | _ => None end
  else if t =? 5 then match a_val a with AVU32 v => Some ([64; 5; 4] ++ u32be v, 7) | _ => None end
  else if t =? 6 then Some ([64; 6; 0], 3)
  else if t =? 7 then
    match a_val a with AVAggregator asn ad => Some ([192; 7; 6] ++ u16be (asn mod 65536) ++ u32be ad, 9) | _ => None end
  else if t =? 8 then
    match a_val a with
    | AVNone => Some ([], 0)
    | AVComms [] => Some ([], 0)
    | AVComms l =>
      let L := (4 * len l) mod 65536 in
      let ext := 255 <? L in
      Some ([if ext then 240 else 224; 8] ++ lenBytes ext L ++ encodeU32s l, ((if ext then L + 1 else L) + 3) mod 65536)
    | _ => None end
  else if t =? 32 then
    match a_val a with
    | AVNone => Some ([], 0)
    | AVLarge [] => Some ([], 0)
    | AVLarge l =>
      let L := (12 * len l) mod 65536 in
      let ext := 255 <? L in
      Some ([if ext then 240 else 224; 32] ++ lenBytes ext L ++
            flat_map (fun c => u32be (fst (fst c)) ++ u32be (snd (fst c)) ++ u32be (snd c)) l,
            ((if ext then L + 1 else L) + 3) mod 65536)
    | _ => None end
  else if t =? 14 then
    match a_val a with
    | AVMPReach afi safi nh nl =>
      match encodeNLRIs (useAddPath o) (safi mod 256) nl with
      | None => None
      | Some nb =>
        let nhb := ipBytes nh in
        let body := u16be (afi mod 65536) ++ [safi mod 256; len nhb mod 256] ++ nhb ++ [0] ++ nb in
        let ext := (255 <? len body) || a_ext a in
        Some ([128 + (if a_trans a then 64 else 0) + (if ext then 16 else 0); 14] ++ lenBytes ext (len body) ++ body,
              (len body + 2) mod 65536)
      end
    | _ => None end
  else if t =? 15 then
    match a_val a with
    | AVMPUnreach afi safi nl =>
      match encodeNLRIs (useAddPath o) (safi mod 256) nl with
      | None => None
      | Some nb =>
        let body := u16be (afi mod 65536) ++ [safi mod 256] ++ nb in
        let ext := (255 <? len body) || a_ext a in
        Some ([128 + (if a_trans a then 64 else 0) + (if ext then 16 else 0); 15] ++ lenBytes ext (len body) ++ body,
              (len body + 2) mod 65536)
      end
    | _ => None end
  else if t =? 9 then match a_val a with AVU32 v => Some ([128; 9; 4] ++ u32be v, 7) | _ => None end
  else if t =? 10 then
    match a_val a with
    | AVCluster (x :: r) =>
      let l := x :: r in
      let L := (4 * len l) mod 65536 in
      let ext := 255 <? L in
      Some ([if ext then 144 else 128; 10] ++ lenBytes ext L ++ encodeU32s l, ((if ext then L + 1 else L) + 3) mod 256)
    | _ => Some ([], 0)                       (* comma-ok type assertion: nil or empty list -> nothing *)
    end
  else
    match a_val a with
    | AVUnknown b =>
      let ext := (255 <? len b) || a_ext a in
      Some ([(if a_opt a then 128 else 0) + 64 + (if a_part a then 32 else 0) + (if ext then 16 else 0); t mod 256]
            ++ lenBytes ext (len b) ++ b, (len b mod 65536 + 3) mod 65536)
    | _ => None end.

(* SerializeUpdate: sequential, with the budget MaxLen - MinLen = 4077 *)
Inductive step := SOk (bytes : list N) (budget : N) | SErr | SPanic.

Fixpoint nlriSection (addPath : bool) (safi : N) (l : list nlri) (acc : list N) (budget : N) : step :=
  match l with
  | [] => SOk acc budget
  | n :: r => match encodeNLRI addPath safi n with
              | None => SPanic
              | Some (b, k) => if budget <? k then SErr else nlriSection addPath safi r (acc ++ b) (budget - k)
              end
  end.

Fixpoint attrSection (o : eopts) (l : list attr) (acc : list N) (budget : N) : step :=
  match l with
  | [] => SOk acc budget
  | a :: r => match encodeAttr o a with
              | None => SPanic
              | Some (b, k) => if budget <? k then SErr else attrSection o r (acc ++ b) (budget - k)
              end
  end.

Definition header (l ty : N) : list N := repeat 255 16 ++ u16be (l mod 65536) ++ [ty].

Definition encodeUpdate (o : eopts) (safi : N) (u : update_msg) : eres :=
  match nlriSection (useAddPath o) safi (u_withdrawn u) [] 4077 with
  | SPanic => EPanic | SErr => EErr
  | SOk wb b1 =>
    match attrSection o (u_attrs u) [] b1 with
    | SPanic => EPanic | SErr => EErr
    | SOk ab b2 =>
      match nlriSection (useAddPath o) safi (u_nlri u) [] b2 with
      | SPanic => EPanic | SErr => EErr
      | SOk nb _ =>
        if 65535 <? len wb then EErr
        else if 65535 <? len ab then EErr
        else
          let total := 2 + len wb + len ab + 2 + len nb + 19 in
          if 4096 <? total then EErr
          else EOk (header total 2 ++ u16be (len wb) ++ wb ++ u16be (len ab) ++ ab ++ nb)
      end
    end
  end.

(* parameters.go / encoder.go *)
Definition encodeCapValue (v : capval) : option (list N) :=
  match v with
  | CVMP afi safi => Some (u16be (afi mod 65536) ++ [0; safi mod 256])
  | CVAddPath l => Some (flat_map (fun t => u16be (fst (fst t) mod 65536) ++ [snd (fst t) mod 256; snd t mod 256]) l)
  | CVASN4 a => Some (u32be a)
  | CVRole r => Some [r mod 256]
  | CVExtNH l => Some (flat_map (fun t => u16be (fst (fst t) mod 65536) ++ u16be (snd (fst t) mod 65536) ++ u16be (snd t mod 65536)) l)
  | CVNone => None                                      (* nil Value: nil pointer dereference *)
  end.

Fixpoint encodeCaps (l : list cap) : option (list N) :=
  match l with
  | [] => Some []
  | c :: r => match encodeCapValue (c_val c), encodeCaps r with
              | Some p, Some br => Some ([c_code c mod 256; len p mod 256] ++ p ++ br)
              | _, _ => None
              end
  end.

Fixpoint encodeParams (l : list optparam) : option (list N) :=
  match l with
  | [] => Some []
  | p :: r => match encodeCaps (o_caps p), encodeParams r with
              | Some pl, Some br => Some ([o_type p mod 256; len pl mod 256] ++ pl ++ br)
              | _, _ => None
              end
  end.

Definition encodeOpen (m : open_msg) : eres :=
  match encodeParams (op_params m) with
  | None => EPanic
  | Some ps =>
    EOk (header (len ps + 29) 1 ++ [op_version m mod 256] ++ u16be (op_asn m mod 65536) ++ u16be (op_hold m mod 65536)
         ++ u32be (op_id m) ++ [len ps mod 256] ++ ps)
  end.

Definition encodeNotification (code sub : N) : eres := EOk (header 21 3 ++ [code mod 256; sub mod 256]).
Definition encodeKeepalive : eres := EOk (header 19 4).

Definition encodeMsg (o : eopts) (safi : N) (b : body) : eres :=
  match b with
  | BOpen m => encodeOpen m
  | BUpdate u => encodeUpdate o safi u
  | BKeepalive => encodeKeepalive
  | BNotification c s => encodeNotification c s
  end.

Definition eoptsOf (k : N) : eopts := mkEOpts (N.testbit k 0) (N.testbit k 1).
(* the decode options of the session that negotiated these encode options *)
Definition doptsOf (o : eopts) : options := mkOpts (useAddPath o) (useAddPath o) (use32 o) false.
