(* Speaker: the wire-to-wire model of a BGP speaker with a set of sessions in Established (C08 stage "speaker",
   on top of Model/Pipeline.v).  What the sessions do with the BYTES they receive and which BYTES they send.
   Nothing is re-modelled; the components are imported and threaded:

     SRecv k bytes   one framed message on session k (as recvMsg hands it to the established state: the frame in a
                     zero-padded 4096-byte buffer)
                     -> Model.BGPCodec.decode with the session's decode options
                     -> UPDATE:        the per-NLRI Adj-RIB-In operations of the message for the IPv4 unicast family
                                       (Spec.UpdateApplySpec.message_ops = Model.UpdateApply.process_update by C20), each one
                                       an EAnnounce / EWithdraw of Model.Pipeline
                        KEEPALIVE:     nothing
                        NOTIFICATION, OPEN (unexpected), decoding error: the session leaves Established = EDown
     SUp / SDown k, SDequeue k key, SEmit k      the events of Model.Pipeline
     output of session k                         the update sender's wire log (Model.UpdateSender: packing C18) message by
                                                 message through the encoder: attributes = Model.ExportWire.sess_wire of the
                                                 exported path (packet.PathAttributes, C09), Model.BGPEncode.encodeUpdate (C17)

   The NEW content are the conversions between the codec's structures and the RIB models' records:
     pfx_id / id_pfx     codec prefix <-> prefix id of the RIB models (address * 64 + length; IPv4)
     conv_attr, conv_update   decoded UPDATE -> the decoded message Model.UpdateApply works on
     conv_wattr          attribute as Model.ExportWire lists it -> codec attribute handed to the encoder
     ann_msg / wd_msg / eor_msg   a message of the sender's wire log -> the packet.BGPUpdate it serializes
   The RIB models look at NEXT_HOP, LOCAL_PREF, MED, AS_PATH (flattened), ORIGINATOR_ID, CLUSTER_LIST; every other
   received attribute is carried by the implementation but not by these models (ORIGIN is taken to be IGP): `covered`
   says which received UPDATEs the RIB models represent exactly.  No proofs in this file. *)
From Coq Require Import List NArith ZArith Bool Arith.
Import ListNotations.
From BioVerif Require Model.PathIDs Model.AdjRIBIn Model.LocRIBClients Model.AdjRIBOut Model.UpdateSender Model.ExportWire
  Model.BGPCodec Model.BGPEncode Model.UpdateApply Spec.UpdateApplySpec.
From BioVerif Require Import Model.Pipeline.

(* ------------------------------------------------------------------ prefixes *)

Definition pfx_id (p : BGPCodec.prefix) : N :=
  match BGPCodec.p_ip p with
  | BGPCodec.IP4 v => (v * 64 + BGPCodec.p_len p)%N
  | BGPCodec.IP6 _ _ => 0%N                      (* not an IPv4 unicast prefix: never reaches the IPv4 family *)
  end.

Definition id_pfx (i : N) : BGPCodec.prefix := BGPCodec.mkPfx (BGPCodec.IP4 (i / 64)) (i mod 64)%N.

(* the prefix of an update sender entry (Model.Pipeline.upfx of a prefix id) as the codec's prefix, and back *)
Definition xpfx (x : UpdateSender.pfx) : BGPCodec.prefix :=
  BGPCodec.mkPfx (BGPCodec.IP4 (UpdateSender.x_addr x)) (UpdateSender.x_len x).
Definition cpfx (p : BGPCodec.prefix) : UpdateSender.pfx :=
  UpdateSender.mkpfx (match BGPCodec.p_ip p with BGPCodec.IP4 v => v | BGPCodec.IP6 _ _ => 0%N end) (BGPCodec.p_len p).

(* ------------------------------------------------------------------ received UPDATE -> what processUpdate works on *)

Definition ip_n (a : BGPCodec.ip) : N := match a with BGPCodec.IP4 v => v | BGPCodec.IP6 _ _ => 0%N end.

Definition conv_nlri (n : BGPCodec.nlri) : UpdateApply.nlri :=
  UpdateApply.mkNLRI (pfx_id (BGPCodec.n_pfx n)) (BGPCodec.n_id n).

(* the decoder gives every value the Go type processAttributes asserts: typed = true throughout *)
Definition conv_attr (a : BGPCodec.attr) : UpdateApply.attr :=
  let t := BGPCodec.a_type a in
  match BGPCodec.a_val a with
  | BGPCodec.AVU32 v =>
    if N.eqb t 5 then UpdateApply.ALocalPref true v
    else if N.eqb t 4 then UpdateApply.AMed true v
    else if N.eqb t 9 then UpdateApply.AOriginator true v
    else UpdateApply.AIgnored true
  | BGPCodec.AVNextHop ip => UpdateApply.ANextHop true (ip_n ip)
  | BGPCodec.AVASPath segs => UpdateApply.AASPath true (flat_map snd segs)
  | BGPCodec.AVCluster l => UpdateApply.AClusterList true l
  | BGPCodec.AVMPReach afi safi nh nl => UpdateApply.AReach true (UpdateApply.mkReach afi safi (ip_n nh) (map conv_nlri nl))
  | BGPCodec.AVMPUnreach afi safi nl => UpdateApply.AUnreach true (UpdateApply.mkUnreach afi safi (map conv_nlri nl))
  | BGPCodec.AVNone => UpdateApply.ASkipped
  | _ => UpdateApply.AIgnored true
  end.

Definition conv_update (u : BGPCodec.update_msg) : UpdateApply.update :=
  UpdateApply.mkUpdate (map conv_nlri (BGPCodec.u_withdrawn u)) (map conv_attr (BGPCodec.u_attrs u))
                       (map conv_nlri (BGPCodec.u_nlri u)).

(* the received UPDATEs the RIB models represent exactly: ORIGIN IGP, one AS_SEQUENCE (or no segment), and besides
   only NEXT_HOP, MED, LOCAL_PREF, ORIGINATOR_ID, CLUSTER_LIST; IPv4 NLRI in the classic fields *)
Definition covered_attr (a : BGPCodec.attr) : bool :=
  let t := BGPCodec.a_type a in
  match BGPCodec.a_val a with
  | BGPCodec.AVOrigin o => N.eqb t 1 && N.eqb o 0
  | BGPCodec.AVASPath segs => N.eqb t 2 && match segs with [] => true | [(ty, _)] => N.eqb ty 2 | _ => false end
  | BGPCodec.AVNextHop _ => N.eqb t 3
  | BGPCodec.AVU32 _ => N.eqb t 4 || N.eqb t 5 || N.eqb t 9
  | BGPCodec.AVCluster _ => N.eqb t 10
  | _ => false
  end.
Definition covered (u : BGPCodec.update_msg) : bool := forallb covered_attr (BGPCodec.u_attrs u).

(* ------------------------------------------------------------------ exported path -> what the encoder is handed *)

Definition mk_attr (opt trans part : bool) (t : N) (v : BGPCodec.attrval) : BGPCodec.attr :=
  BGPCodec.mkAttr opt trans part false t 0%N v.

(* packet.PathAttributes builds this list (Model.ExportWire.wire: type + value); flags and lengths are the encoder's *)
Definition conv_wattr (w : ExportWire.wattr) : BGPCodec.attr :=
  match w with
  | ExportWire.WAsPath p =>
    mk_attr false true false 2 (BGPCodec.AVASPath (map (fun sg : bool * list N => (if fst sg then 2%N else 1%N, snd sg)) p))
  | ExportWire.WOrigin o => mk_attr false true false 1 (BGPCodec.AVOrigin o)
  | ExportWire.WNextHop n => mk_attr false true false 3 (BGPCodec.AVNextHop (BGPCodec.IP4 n))
  | ExportWire.WMed m => mk_attr true false false 4 (BGPCodec.AVU32 m)
  | ExportWire.WAtomic => mk_attr false true false 6 BGPCodec.AVNone
  | ExportWire.WAggregator a => mk_attr true true false 7 (BGPCodec.AVAggregator (fst a) (snd a))
  | ExportWire.WLocalPref l => mk_attr false true false 5 (BGPCodec.AVU32 l)
  | ExportWire.WOriginator o => mk_attr true false false 9 (BGPCodec.AVU32 o)
  | ExportWire.WClusterList l => mk_attr true false false 10 (BGPCodec.AVCluster l)
  | ExportWire.WComms l => mk_attr true true false 8 (BGPCodec.AVComms l)
  | ExportWire.WLComms l => mk_attr true true false 32 (BGPCodec.AVLarge l)
  | ExportWire.WUnknown u =>
    mk_attr (N.testbit (AdjRIBOut.u_flags u) 2) (N.testbit (AdjRIBOut.u_flags u) 1) (N.testbit (AdjRIBOut.u_flags u) 0)
            (AdjRIBOut.u_code u) (BGPCodec.AVUnknown (AdjRIBOut.u_val u))
  end.

Definition out_nlri (pid : N) (x : UpdateSender.pfx) : BGPCodec.nlri := BGPCodec.mkNLRI pid [] (xpfx x).

(* the packet.BGPUpdate of an announcement (sendUpdates / bgpUpdate), a withdrawal (withdrawPrefix), End-of-RIB *)
Definition ann_msg (s : AdjRIBOut.sess) (b : AdjRIBOut.bgp) (pid : N) (xs : list UpdateSender.pfx) : BGPCodec.update_msg :=
  BGPCodec.mkUpdate 0 [] 0 (map conv_wattr (ExportWire.sess_wire s b)) (map (out_nlri pid) xs).
Definition wd_msg (pid : N) (x : UpdateSender.pfx) : BGPCodec.update_msg :=
  BGPCodec.mkUpdate 0 [out_nlri pid x] 0 [] [].
Definition eor_msg : BGPCodec.update_msg := BGPCodec.mkUpdate 0 [] 0 [] [].

(* ------------------------------------------------------------------ framing *)

Definition blen (b : list N) : N := N.of_nat (length b).

(* what recvMsg hands over: a message of 19..4096 bytes whose header carries its length *)
Definition frame_ok (b : list N) : bool :=
  (19 <=? blen b)%N && (blen b <=? 4096)%N && (nth 16 b 0 * 256 + nth 17 b 0 =? blen b)%N &&
  forallb (fun x => x <? 256)%N b.

(* buffer := make([]byte, packet.MaxLen) *)
Definition padded (b : list N) : list N := b ++ repeat 0%N (4096 - length b).

Definition recv_decode (o : BGPCodec.options) (b : list N) : BGPCodec.outcome BGPCodec.msg :=
  fst (BGPCodec.decode (S (length (padded b))) o (padded b)).

Section Speaker.
  Variable P : Type.
  Variable apply : P -> N -> AdjRIBOut.path -> option AdjRIBOut.path.
  Variable sel : nat -> list (LocRIBClients.entry AdjRIBOut.path) -> list (LocRIBClients.entry AdjRIBOut.path) * nat.
  Variable tagf : AdjRIBOut.bgp -> N.

  (* a session of the speaker: its RIB pipeline configuration and the negotiated codec options *)
  Record spcfg := mkSpcfg {
    sp_c : scfg P;
    sp_dec : BGPCodec.options;      (* DecodeOptions of the session *)
    sp_enc : BGPEncode.eopts        (* EncodeOptions of its update sender *)
  }.

  Record spst := mkSpst {
    sp_pipe : pst P;
    sp_crash : bool                 (* the decoder panicked or ran out of fuel (C16: never) *)
  }.

  Definition cfgs_of (cs : list spcfg) : list (scfg P) := map sp_c cs.

  Definition sinit (cs : list spcfg) : spst := mkSpst (Pipeline.init P (cfgs_of cs)) false.

  Inductive sevent :=
  | SUp (k : nat) | SDown (k : nat)
  | SRecv (k : nat) (b : list N)
  | SDequeue (k : nat) (key : UpdateSender.key) | SEmit (k : nat).

  Notation pstep cs := (Pipeline.step P apply sel tagf (cfgs_of cs)).

  (* the Adj-RIB-In operations of a message as events of the pipeline *)
  Definition op_event (k : nat) (o : AdjRIBIn.op) : list event :=
    match o with
    | AdjRIBIn.Announce p q => [EAnnounce k p q]
    | AdjRIBIn.Withdraw p i => [EWithdraw k p i]
    | _ => []
    end.

  Definition update_events (k : nat) (u : BGPCodec.update_msg) : list event :=
    flat_map (op_event k) (UpdateApplySpec.message_ops 1 (conv_update u)).

  Definition recv (cs : list spcfg) (k : nat) (c : spcfg) (b : list N) (st : spst) : spst :=
    match recv_decode (sp_dec c) b with
    | BGPCodec.Ok m _ =>
      match BGPCodec.m_body m with
      | BGPCodec.BUpdate u => mkSpst (fold_left (pstep cs) (update_events k u) (sp_pipe st)) (sp_crash st)
      | BGPCodec.BKeepalive => st
      | BGPCodec.BNotification _ _ | BGPCodec.BOpen _ => mkSpst (pstep cs (sp_pipe st) (EDown k)) (sp_crash st)
      end
    | BGPCodec.Err => mkSpst (pstep cs (sp_pipe st) (EDown k)) (sp_crash st)
    | BGPCodec.Panic _ | BGPCodec.OutOfFuel => mkSpst (sp_pipe st) true
    end.

  Definition sstep (cs : list spcfg) (st : spst) (ev : sevent) : spst :=
    match ev with
    | SUp k => mkSpst (pstep cs (sp_pipe st) (EUp k)) (sp_crash st)
    | SDown k => mkSpst (pstep cs (sp_pipe st) (EDown k)) (sp_crash st)
    | SDequeue k key => mkSpst (pstep cs (sp_pipe st) (EDequeue k key)) (sp_crash st)
    | SEmit k => mkSpst (pstep cs (sp_pipe st) (EEmit k)) (sp_crash st)
    | SRecv k b =>
      match nth_error cs k with
      | Some c => if is_up P (sp_pipe st) k && frame_ok b then recv cs k c b st else st
      | None => st
      end
    end.

  Definition srun (cs : list spcfg) (evs : list sevent) : spst := fold_left (sstep cs) evs (sinit cs).

  (* ---------------------------------------------------------------- what is written to a session's connection *)

  (* the exported path behind a tag of the sender's wire log: the Adj-RIB-Out told the sender about it *)
  Definition bgp_of_tag (a : AdjRIBOut.aro P) (tag : N) : option AdjRIBOut.bgp :=
    match find (fun ev => match ev with
                          | AdjRIBOut.Announce _ (AdjRIBOut.PBgp _ b) => N.eqb (tagf b) tag
                          | _ => false end) (AdjRIBOut.elog a) with
    | Some (AdjRIBOut.Announce _ (AdjRIBOut.PBgp _ b)) => Some b
    | _ => None
    end.

  Definition msg_update (c : spcfg) (a : AdjRIBOut.aro P) (m : UpdateSender.msg) : option BGPCodec.update_msg :=
    match m with
    | UpdateSender.MAnn tag pid _ xs =>
      match bgp_of_tag a tag with
      | Some b => Some (ann_msg (sc_sess P (sp_c c)) b pid xs)
      | None => None
      end
    | UpdateSender.MWd x pid => Some (wd_msg pid x)
    | UpdateSender.MEoR => Some eor_msg
    end.

  (* one UPDATE on the wire; None: not representable (the encoder refused or would panic) *)
  Definition msg_bytes (c : spcfg) (a : AdjRIBOut.aro P) (m : UpdateSender.msg) : option (list N) :=
    match msg_update c a m with
    | Some u => match BGPEncode.encodeUpdate (sp_enc c) 1 u with BGPEncode.EOk bs => Some bs | _ => None end
    | None => None
    end.

  (* the UPDATE messages written to session c's connection since it came up, oldest first *)
  Definition output (c : spcfg) (s : sst P) : list (option (list N)) :=
    map (msg_bytes c (ss_out P s)) (rev (UpdateSender.wire (ss_us P s))).

  (* ---------------------------------------------------------------- what the peer makes of these bytes *)

  (* the peer's Adj-RIB-In as the decoded UPDATEs define it: (prefix, path id) -> the attribute (type, value)s received
     with the newest UPDATE that announced it and was not withdrawn since; the prefix in the update sender's notation *)
  Definition nkey_eqb (x : UpdateSender.pfx) (i : N) (n : BGPCodec.nlri) : bool :=
    UpdateSender.pfx_eqb x (cpfx (BGPCodec.n_pfx n)) && N.eqb (BGPCodec.n_id n) i.

  Definition attrs_tv (u : BGPCodec.update_msg) : list (N * BGPCodec.attrval) :=
    map (fun a => (BGPCodec.a_type a, BGPCodec.a_val a)) (BGPCodec.u_attrs u).

  Fixpoint dview (us : list BGPCodec.update_msg) (x : UpdateSender.pfx) (i : N) : option (list (N * BGPCodec.attrval)) :=
    match us with
    | [] => None
    | u :: r =>                                         (* newest first *)
      if existsb (nkey_eqb x i) (BGPCodec.u_nlri u) then Some (attrs_tv u)
      else if existsb (nkey_eqb x i) (BGPCodec.u_withdrawn u) then None
      else dview r x i
    end.

  (* decode what was written with the options of the session that negotiated the encode options *)
  Definition decode_out (c : spcfg) (bs : list N) : option BGPCodec.update_msg :=
    match fst (BGPCodec.decode (S (length bs)) (BGPEncode.doptsOf (sp_enc c)) bs) with
    | BGPCodec.Ok m _ => match BGPCodec.m_body m with BGPCodec.BUpdate u => Some u | _ => None end
    | _ => None
    end.

  Definition decoded_output (c : spcfg) (s : sst P) : list (option BGPCodec.update_msg) :=
    map (fun ob => match ob with Some bs => decode_out c bs | None => None end) (output c s).
End Speaker.
