(* C01 companion: the same trie model (Model/Trie.v) instantiated with IPv4 prefixes AS GO STORES
   THEM: a 32-bit address plus a length, where bits beyond the length ("host bits") may be set.
   Used only to document (Properties/C01.v: C01_noncanonical_refuted) that the refinement needs
   canonical prefixes, and tied to the code by the "rn" stream of the correspondence check.
   net.Prefix.{Equal, Contains, supernetIPv4, BitAtPosition} are transcribed for lengths 1..32
   (supernetIPv4 computes uint8 `min(len)-1`, which wraps for /0; such inputs are not generated). *)
From Coq Require Import List Bool Arith ZArith NArith.
From BioVerif Require Import Lib.BitPfx Model.Trie.
Import ListNotations.

Record rpfx := mkR { raddr : bits (* 32 bits, most significant first *); rlen : nat }.

(* Prefix.Equal: same address (all 32 bits), same length *)
Definition r_equal (a b : rpfx) : bool := beq (raddr a) (raddr b) && Nat.eqb (rlen a) (rlen b).

(* Prefix.Contains / containsIPv4: x.len <= pfx.len gives false; else compare under the mask *)
Definition r_contains (p x : rpfx) : bool :=
  if rlen x <=? rlen p then false
  else beq (firstn (rlen p) (raddr p)) (firstn (rlen p) (raddr x)).

(* IP.BitAtPosition *)
Definition r_bitAt (p : rpfx) (pos : nat) : bool := bitAt (raddr p) pos.

(* Prefix.supernetIPv4: start from the top min(len)-1 bits of both, shorten until they agree;
   the result is that common part padded with zeros *)
Definition r_supernet (p x : rpfx) : rpfx :=
  let maxl := Nat.min (rlen p) (rlen x) - 1 in
  let c := lcp (firstn maxl (raddr p)) (firstn maxl (raddr x)) in
  mkR (c ++ repeat false (32 - length c)) (length c).

Section RawTrie.
  Variable P : Type.
  Variable peq : P -> P -> bool.
  Definition rtable := table rpfx P.
  Definition rop := op rpfx P.
  Definition r_empty : rtable := empty rpfx P.
  Definition r_step : rtable -> rop -> rtable := step rpfx P peq r_equal r_contains r_supernet r_bitAt rlen.
  Definition r_run : list rop -> rtable := run rpfx P peq r_equal r_contains r_supernet r_bitAt rlen.
  Definition rt_get (t : rtable) (q : rpfx) := t_get rpfx P r_equal r_bitAt rlen t q.
  Definition rt_lpm (t : rtable) (q : rpfx) := t_lpm rpfx P r_equal r_contains t q.
  Definition rt_getLonger (t : rtable) (q : rpfx) := t_getLonger rpfx P r_equal r_contains r_bitAt rlen t q.
  Definition rt_dump (t : rtable) := t_dump rpfx P t.
  Definition rt_count (t : rtable) : Z := count rpfx P t.
End RawTrie.

(* n.n.n.n/len from the first octet and the last bit (enough for the witness) *)
Definition ipv4_prefix (first_octet : list bool) (last_bit : bool) (len : nat) : rpfx :=
  mkR (first_octet ++ repeat false 23 ++ [last_bit]) len.
