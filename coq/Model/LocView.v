(* C08: the Loc-RIB as an Adj-RIB-Out sees it.

   A session registered with ClientOptions{BestOnly} / {MaxPaths: N} is told about the first 1 / N
   selected paths of every prefix.  The Loc-RIB is modelled by exactly that view (prefix -> list of
   paths, in selection order); a Loc-RIB history is a list of view changes (prefix, new list), whatever
   caused them (new route, best-path change, ECMP change, withdrawal, redistributed static route).
   LocRIB.propagateChanges turns a change into client calls: RemovePath for every old path that is not
   in the new list (removePathsFromClients), then AddPath for every new path that was not in the old
   list (addPathsToClients), both in list order (route.PathsDiff).  How the Loc-RIB selects is the
   business of C02/C03/C04 and deliberately not modelled.  No proofs in this file. *)
From Coq Require Import List NArith Bool.
Import ListNotations.
From BioVerif Require Import Model.PathIDs Model.AdjRIBOut.
Local Open Scope N_scope.

Definition path_eq_dec : forall p q : path, {p = q} + {p <> q}.
Proof. repeat decide equality. Defined.

Definition mem_path (p : path) (l : list path) : bool :=
  if in_dec path_eq_dec p l then true else false.

(* route.PathsDiff(a, b): the elements of a that are not in b *)
Definition paths_diff (a b : list path) : list path := filter (fun p => negb (mem_path p b)) a.

Definition view := list (N * list path).

Fixpoint view_get (pfx : N) (v : view) : list path :=
  match v with
  | [] => []
  | (k, l) :: v' => if N.eqb k pfx then l else view_get pfx v'
  end.

Fixpoint view_set (pfx : N) (l : list path) (v : view) : view :=
  match v with
  | [] => [(pfx, l)]
  | (k, m) :: v' => if N.eqb k pfx then (k, l) :: v' else (k, m) :: view_set pfx l v'
  end.

Section Feed.
  Variable P : Type.
  Variable apply : P -> N -> path -> option path.
  Variable s : sess.

  (* the client calls one view change causes *)
  Definition change_ops (old new : list path) (pfx : N) : list (op P) :=
    map (ORemove pfx) (paths_diff old new) ++ map (OAdd pfx) (paths_diff new old).

  (* Loc-RIB view and Adj-RIB-Out side by side *)
  Definition feed_step (st : view * aro P) (ch : N * list path) : view * aro P :=
    let (v, a) := st in
    let (pfx, new) := ch in
    (view_set pfx new v, fold_left (step P apply s) (change_ops (view_get pfx v) new pfx) a).

  Definition feed (c : P) (h : list (N * list path)) : view * aro P :=
    fold_left feed_step h ([], init P c).
End Feed.
