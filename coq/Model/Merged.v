(* C29: executable model of routingtable/mergedlocrib (MergedLocRIB + routeContainer).
   Routes are identified by the sha1 of their protobuf encoding; the hash is modelled as
   the identity on route ids (collision freedom is an assumption, DESIGN.md section 4).
   The Loc-RIB below is modelled as the list of route ids currently installed
   (AddPath = cons, RemovePath = remove the first equal one). *)
From Coq Require Import List NArith Bool.
Import ListNotations.

Definition src := N.
Definition rid := N.

Record st := mk { routes : list (rid * list src); rib : list rid }.

Definition empty : st := mk [] [].

Inductive op := Add (s : src) (r : rid) | Remove (s : src) (r : rid) | Drop (s : src).

Fixpoint lookup (r : rid) (m : list (rid * list src)) : option (list src) :=
  match m with
  | [] => None
  | (k, v) :: m' => if N.eqb k r then Some v else lookup r m'
  end.

Fixpoint set (r : rid) (v : list src) (m : list (rid * list src)) : list (rid * list src) :=
  match m with
  | [] => [(r, v)]
  | (k, w) :: m' => if N.eqb k r then (k, v) :: m' else (k, w) :: set r v m'
  end.

(* delete(map, key): Go map keys are unique; removing every binding of r is the faithful reading *)
Definition del (r : rid) (m : list (rid * list src)) : list (rid * list src) :=
  filter (fun kv => negb (N.eqb (fst kv) r)) m.

Fixpoint mem (s : src) (l : list src) : bool :=
  match l with [] => false | x :: l' => N.eqb x s || mem s l' end.

(* routeContainer.removeSource: overwrite the first occurrence with the last element, drop the last *)
Fixpoint swap_remove (s : src) (l : list src) : list src :=
  match l with
  | [] => []
  | x :: l' =>
    if N.eqb x s then
      match rev l' with
      | [] => []
      | last :: rinit => last :: rev rinit
      end
    else x :: swap_remove s l'
  end.

(* routeContainer.addSource (after the fix: idempotent) *)
Definition add_source (s : src) (l : list src) : list src :=
  if mem s l then l else l ++ [s].

Fixpoint rib_remove (r : rid) (l : list rid) : list rid :=
  match l with [] => [] | x :: l' => if N.eqb x r then l' else x :: rib_remove r l' end.

(* MergedLocRIB._delRoute for an existing entry with sources l *)
Definition del_route (s : src) (r : rid) (l : list src) (t : st) : st :=
  let l' := swap_remove s l in
  match l' with
  | [] => mk (del r (routes t)) (rib_remove r (rib t))
  | _ => mk (set r l' (routes t)) (rib t)
  end.

Definition step (t : st) (o : op) : st :=
  match o with
  | Add s r =>
    match lookup r (routes t) with
    | None => mk (set r [s] (routes t)) (r :: rib t)
    | Some l => mk (set r (add_source s l) (routes t)) (rib t)
    end
  | Remove s r =>
    match lookup r (routes t) with
    | None => t
    | Some l => del_route s r l t
    end
  | Drop s =>
    (* `for h, rc := range rtm.routes { rtm._delRoute(h, src, rc.route) }`: one _delRoute per key
       present at loop entry (deleting the current key while ranging is allowed in Go); keys are
       visited in the order of the association list, the theorem does not depend on it *)
    fold_left (fun acc k => match lookup k (routes acc) with
                            | Some l => del_route s k l acc
                            | None => acc end) (map fst (routes t)) t
  end.

Definition run (ops : list op) : st := fold_left step ops empty.

(* observables *)
Definition single_source_count (t : st) : N :=
  N.of_nat (length (filter (fun kv => Nat.eqb (length (snd kv)) 1) (routes t))).
Definition unique_count (t : st) : N := N.of_nat (length (routes t)).

(* ---- risclient/risclient.go: the glue between an ObserveRIB stream and the merged table.
   serviceLoop turns every received RIBUpdate into AddRoute / RemoveRoute and the end of the stream
   (Recv error; deferred processDownEvent) into DropAllBySrc - all three with the SAME source key
   r.cc of the client. Clients are numbered; the source key of client c is c. *)
Inductive event := Adv (c : src) (r : rid) | Wd (c : src) (r : rid) | StreamEnd (c : src).

Definition glue (e : event) : op :=
  match e with
  | Adv c r => Add c r          (* processAdvertisement: r.c.AddRoute(r.cc, u.Route) *)
  | Wd c r => Remove c r        (* processWithdraw:      r.c.RemoveRoute(r.cc, u.Route) *)
  | StreamEnd c => Drop c       (* processDownEvent:     r.c.DropAllBySrc(r.cc) *)
  end.

Definition run_events (evs : list event) : st := run (map glue evs).
