(* C08 specification: the Adj-RIB-Out is the export view of the Loc-RIB. *)
From Coq Require Import List NArith Bool Permutation.
Import ListNotations.
From BioVerif Require Import Model.PathIDs Model.AdjRIBOut Model.LocView.
Local Open Scope N_scope.

Definition opt_list {A : Type} (o : option A) : list A := match o with Some x => [x] | None => [] end.

(* what the session must hold for a prefix whose selected (first-n) Loc-RIB paths are l: every path the
   export rules and the export policy admit, rewritten - in the Loc-RIB's order *)
Definition export_view (f : N -> path -> option path) (s : sess) (pfx : N) (l : list path) : list path :=
  flat_map (fun p => opt_list (export_with f s pfx p)) l.

(* the path identifier is assigned by the Adj-RIB-Out on add-path sessions: not part of the comparison there *)
Definition strip (p : path) : path := path_set_pid 0 p.
Definition norm (s : sess) (p : path) : path := if s_addpath s then strip p else p.

(* per prefix, the table holds exactly the export view (as a multiset: the table keeps insertion order,
   the Loc-RIB selection order) - in particular nothing that has since been withdrawn *)
Definition ribout_is_export_view {P : Type} (f : N -> path -> option path) (s : sess)
           (v : view) (a : aro P) : Prop :=
  forall pfx, Permutation (map (norm s) (tbl_get pfx (tbl a)))
                          (map (norm s) (export_view f s pfx (view_get pfx v))).

(* The guards of the partial theorem; each of K1-K3 excludes one recorded known finding. *)
Record guards (f : N -> path -> option path) (s : sess) (h : list (N * list path)) : Prop := mkGuards {
  (* K1 stale-after-withdraw: the session does not rewrite (iBGP non-client; RS client without OTC egress) ... *)
  g_transparent : forall r b b', rewrite s r b = Some b' -> b' = b;
  (* ... and nothing is redistributed: all Loc-RIB paths are BGP-learned *)
  g_bgp : forall pfx l p, In (pfx, l) h -> In p l -> exists b, p = PBgp 0 b;
  (* K2 wiped prefix: on add-path sessions no path that must not be exported enters the view *)
  g_prop : s_addpath s = true ->
           forall pfx l p, In (pfx, l) h -> In p l -> should_propagate s p = true;
  (* K3 compare-equal siblings: on add-path sessions the policy keeps different Loc-RIB paths of a prefix
     apart in the sense of Path.Compare (path id aside) *)
  g_apart : s_addpath s = true ->
            forall pfx l1 l2 p1 p2 q1 q2, In (pfx, l1) h -> In (pfx, l2) h -> In p1 l1 -> In p2 l2 ->
            f pfx p1 = Some q1 -> f pfx p2 = Some q2 -> path_compare (strip q1) (strip q2) = true -> p1 = p2;
  (* well-formedness of the history: views are duplicate free, a best-only session is told one path *)
  g_nodup : forall pfx l, In (pfx, l) h -> NoDup l;
  g_best : s_addpath s = false -> forall pfx l, In (pfx, l) h -> (length l <= 1)%nat;
  (* typing of the abstract policy: it answers BGP paths with BGP paths (all filter actions do) *)
  g_fbgp : forall pfx r b q, f pfx (PBgp r b) = Some q -> exists r' b', q = PBgp r' b'
}.
