(* Specification for C22: which OPENs may be admitted and what is negotiated, written from the
   property text / RFC 4271 4.2, RFC 6793, RFC 9234, RFC 7911, RFC 4760 - not from the code's
   capability loop: everything here is a direct function of the configuration, the OPEN we send
   ([sent_open], Model/FSM.v) and the OPEN received. *)
From Coq Require Import List NArith Bool.
Import ListNotations.
From BioVerif Require Import Model.FSM.
Local Open Scope N_scope.

Definition AS_TRANS : N := 23456.

(* values of the 4-octet AS capabilities / role capabilities of an OPEN, in order *)
Fixpoint asn4_values (cs : list cap) : list N :=
  match cs with
  | [] => []
  | CapASN4 a :: r => a :: asn4_values r
  | _ :: r => asn4_values r
  end.
Fixpoint role_values (cs : list cap) : list N :=
  match cs with
  | [] => []
  | CapRole a :: r => a :: role_values r
  | _ :: r => role_values r
  end.

(* RFC 6793: the 2-octet field carries AS_TRANS when the AS number does not fit; the real number is in
   the capability *)
Fixpoint resolve_as (a : N) (vals : list N) : N :=
  match vals with
  | [] => a
  | v :: r => if a =? AS_TRANS then resolve_as v r else a
  end.
Definition peer_as (o : open_msg) : N := resolve_as (o_asn o) (asn4_values (o_caps o)).

(* RFC 9234 4.2: allowed pairs (local, remote) *)
Definition rfc9234_pairs : list (N * N) := [(0, 3); (3, 0); (1, 2); (2, 1); (4, 4)].
   (* provider-customer, customer-provider, RS - RS-client, RS-client - RS, peer-peer *)
Definition rfc9234_pair (loc rem : N) : bool :=
  existsb (fun p => (loc =? fst p) && (rem =? snd p)) rfc9234_pairs.

(* roles: checked on eBGP sessions with a role configured; no role from the peer is fine unless strict;
   several different roles are a mismatch; otherwise the pair must be allowed *)
Definition roles_acceptable (c : cfg) (o : open_msg) : bool :=
  if negb (ebgp c) || negb (role_enabled c) then true
  else match role_values (o_caps o) with
       | [] => negb (c_strict c)
       | r :: rest => forallb (N.eqb r) rest && rfc9234_pair (wire_role (c_role c)) r
       end.

Record valid_open (c : cfg) (o : open_msg) : Prop := {
  vo_version : o_ver o = 4;
  vo_as : peer_as o = c_pas c;
  vo_id_nonzero : o_id o <> 0;
  vo_id_ibgp : ebgp c = false -> o_id o <> c_rid c;
  vo_hold : o_hold o = 0 \/ 3 <= o_hold o;
  vo_roles : roles_acceptable c o = true
}.

(* "advertised" predicates on a capability list *)
Definition adv_asn4 (cs : list cap) : bool := existsb (fun x => match x with CapASN4 _ => true | _ => false end) cs.
Definition adv_mp (cs : list cap) (afi : N) : bool :=
  existsb (fun x => match x with CapMP a s => (a =? afi) && (s =? 1) | _ => false end) cs.
(* add-path for (afi, unicast) with the Receive (1) resp. Send (2) ability: SendReceive is 1, 2 or 3 *)
Definition adv_ap_recv (cs : list cap) (afi : N) : bool :=
  existsb (fun x => match x with CapAddPath a s sr => (a =? afi) && (s =? 1) && ((sr =? 1) || (sr =? 3)) | _ => false end) cs.
Definition adv_ap_send (cs : list cap) (afi : N) : bool :=
  existsb (fun x => match x with CapAddPath a s sr => (a =? afi) && (s =? 1) && ((sr =? 2) || (sr =? 3)) | _ => false end) cs.

(* what the session must run with: each option is on exactly when both OPENs advertised it *)
Record negotiated_ok (c : cfg) (o : open_msg) (n : neg) : Prop := {
  ng_hold : n_hold n = N.min (c_hold c) (o_hold o);
  ng_asn4 : n_asn4 n = adv_asn4 (o_caps (sent_open c)) && adv_asn4 (o_caps o);
  ng_rx4 : n_rx4 n = adv_ap_recv (o_caps (sent_open c)) 1 && adv_ap_send (o_caps o) 1;
  ng_tx4 : n_tx4 n = adv_ap_send (o_caps (sent_open c)) 1 && adv_ap_recv (o_caps o) 1;
  ng_rx6 : n_rx6 n = adv_ap_recv (o_caps (sent_open c)) 2 && adv_ap_send (o_caps o) 2;
  ng_tx6 : n_tx6 n = adv_ap_send (o_caps (sent_open c)) 2 && adv_ap_recv (o_caps o) 2;
  ng_mp4 : n_mp4 n = adv_mp (o_caps (sent_open c)) 1 && adv_mp (o_caps o) 1;
  ng_mp6 : n_mp6 n = adv_mp (o_caps (sent_open c)) 2 && adv_mp (o_caps o) 2;
  ng_timer : n_katimer n = negb (n_hold n =? 0)
}.
