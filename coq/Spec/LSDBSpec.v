(* C32 specification: history functions and predicates the property's text refers to, defined on
   the event list (or on model runs only where the text itself speaks about the run). *)
From Coq Require Import List Bool NArith Arith.
Import ListNotations.
From BioVerif Require Import Model.LSDB.
Open Scope N_scope.

(* highest sequence number among the copies of LSP k received as LSP PDUs in evs, starting from m *)
Definition track_recv (k : lspid) (m : N) (e : event) : N :=
  match e with
  | RecvLSP _ k' sq _ => if id_eqb k' k then N.max m sq else m
  | _ => m
  end.
Definition max_recv (k : lspid) (evs : list event) (m : N) : N := fold_left (track_recv k) evs m.

(* histories without aging ticks and without (re)generation of the local LSP *)
Definition quiet_ev (e : event) : bool :=
  match e with Tick | Service | Regen => false | _ => true end.
Definition quiet (evs : list event) : bool := forallb quiet_ev evs.

(* the LSP updater routine gets to run after every aging tick *)
Fixpoint serviced (evs : list event) : bool :=
  match evs with
  | [] => true
  | Tick :: r =>
    match r with
    | Service :: r' => serviced r'
    | _ => false
    end
  | _ :: r => serviced r
  end.

(* the 32 bit sequence counter is never at its last value during the run (no wrap-around) *)
Definition last_seq : N := 4294967295.
Fixpoint nowrap_from (s : srv) (evs : list event) : Prop :=
  counter s < last_seq /\
  match evs with
  | [] => True
  | e :: r => nowrap_from (step s e) r
  end.

(* the interfaces on which SRM may be set at all *)
Definition srm_allowed (s : srv) (i : nat) : Prop := if_ok s i = true.
