(* C30 specification: which PDU values the serializers can represent ([wf_*]) and what a decoder
   has to return for them ([norm_*]: the same content; TLV structs readTLV has no case for come
   back as unknown TLVs holding the very bytes that were written). *)
From Coq Require Import List NArith ZArith.
Import ListNotations.
From BioVerif Require Import Model.ISISCodec.
Open Scope N_scope.

Definition u8 (x : N) : Prop := x < 256.
Definition u16 (x : N) : Prop := x < 65536.
Definition u32 (x : N) : Prop := x < 4294967296.
Definition len_is (l : list N) (n : nat) : Prop := length l = n.

Definition wf_entry (e : lspentry) : Prop :=
  u16 (le_life e) /\ len_is (le_id e) 8 /\ u32 (le_seq e) /\ u16 (le_csum e).

(* TLV structs without a decoder: any type code readTLV treats as unknown, and a length field that
   says how many bytes Serialize writes *)
Definition wf_raw (t : tlv) : Prop :=
  kind_of (tlv_type t) = KUnknown /\ tlv_len t = N.of_nat (length (tlv_value t)).

Definition wf_tlv (t : tlv) : Prop :=
  u8 (tlv_len t) /\
  match t with
  | TArea ty len areas => ty = 1 /\ len = N.of_nat (length (concat (map enc_area areas)))
  | TChecksum ty len cs => ty = 12 /\ u16 cs
  | TDynHost ty len nm => ty = 137 /\ len = N.of_nat (length nm)
  | TProto ty len ids => ty = 129 /\ len = N.of_nat (length ids)
  | TIPIf ty len addrs => ty = 132 /\ len = 4 * N.of_nat (length addrs) /\ Forall u32 addrs
  | TP2PAdj ty len st ecid nsys necid =>
    ty = 240 /\ u32 ecid /\
    ((len = 5 /\ nsys = zero6 /\ necid = 0) \/ (len = 15 /\ len_is nsys 6 /\ u32 necid))
  | TISNbr ty len snpa => ty = 6 /\ len_is snpa 6
  | TEntries ty len es => ty = 9 /\ len = 16 * N.of_nat (length es) /\ Forall wf_entry es
  | TUnknown _ _ _ | TPadding _ _ _ | TExtIS _ _ _ | TExtIP _ _ _ | TTERid _ _ _ => wf_raw t
  end.

Definition norm_tlv (t : tlv) : tlv :=
  match t with
  | TPadding _ _ _ | TExtIS _ _ _ | TExtIP _ _ _ | TTERid _ _ _ =>
    TUnknown (tlv_type t) (tlv_len t) (tlv_value t)
  | _ => t
  end.

Definition wf_hello (x : hello) : Prop :=
  len_is (hl_sys x) 6 /\ u16 (hl_hold x) /\ Forall wf_tlv (hl_tlvs x).

Definition wf_lsp (x : lsp) : Prop :=
  u16 (ls_len x) /\ u16 (ls_life x) /\ len_is (ls_id x) 8 /\ u32 (ls_seq x) /\ u16 (ls_csum x) /\
  Forall wf_tlv (ls_tlvs x).

Definition wf_csnp (x : csnp) : Prop :=
  u16 (cs_len x) /\ len_is (cs_src x) 7 /\ len_is (cs_start x) 8 /\ len_is (cs_end x) 8 /\
  Forall wf_tlv (cs_tlvs x).

Definition wf_psnp (x : psnp) : Prop :=
  u16 (ps_len x) /\ len_is (ps_src x) 7 /\ Forall wf_tlv (ps_tlvs x).

(* P2PHello.Serialize stores the PDU length it computes in the struct: that is the content afterwards *)
Definition norm_hello (x : hello) : hello :=
  let y := hello_set_len x in
  mkHello (hl_ct y) (hl_sys y) (hl_hold y) (hl_len y) (hl_lcid y) (map norm_tlv (hl_tlvs y)).
Definition norm_lsp (x : lsp) : lsp :=
  mkLsp (ls_len x) (ls_life x) (ls_id x) (ls_seq x) (ls_csum x) (ls_tb x) (map norm_tlv (ls_tlvs x)).
Definition norm_csnp (x : csnp) : csnp :=
  mkCsnp (cs_len x) (cs_src x) (cs_start x) (cs_end x) (map norm_tlv (cs_tlvs x)).
Definition norm_psnp (x : psnp) : psnp :=
  mkPsnp (ps_len x) (ps_src x) (map norm_tlv (ps_tlvs x)).

(* the LSP entries a CSNP / PSNP carries (all LSP Entries TLVs, in order) *)
Definition tlv_entries (t : tlv) : list lspentry :=
  match t with TEntries _ _ es => es | _ => [] end.
Definition csnp_entries (c : csnp) : list lspentry := concat (map tlv_entries (cs_tlvs c)).
Definition psnp_entries (p : psnp) : list lspentry := concat (map tlv_entries (ps_tlvs p)).

Definition hdr_of (ty : N) : header := mkHeader 131 0 1 0 ty 1 0.
