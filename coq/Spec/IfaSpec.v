(* C33 specification: what "the server survives every up/down sequence and an active interface
   sends hellos / can form adjacencies whenever its link is up (in particular after it came back)"
   means on the model of Model/Ifa.v. *)
From Coq Require Import List Bool Arith.
Import ListNotations.
From BioVerif Require Import Model.Ifa.

(* kinds: the configured interfaces (true = passive); evs: device updates addressed to them *)
Definition survives (kinds : list bool) (evs : list event) : Prop :=
  exists s, run head_discipline (init kinds) evs = Ok s.

(* Whenever the last device update of an active interface reported "up" - no matter how many
   ups and downs came before, on this or on other interfaces - the interface sends hellos in
   the next hello interval and frames from a neighbor reach the adjacency code. *)
Definition hellos_after_up (kinds : list bool) (evs : list event) : Prop :=
  forall s i f,
    run head_discipline (init kinds) evs = Ok s ->
    nth_error s i = Some f ->
    passive f = false ->
    last_up evs i false = true ->
    sends_hellos f = true /\ can_form_adjacency f = true.

(* ... and an interface that is passive or whose link is not up stays quiet and deaf *)
Definition quiet_otherwise (kinds : list bool) (evs : list event) : Prop :=
  forall s i f,
    run head_discipline (init kinds) evs = Ok s ->
    nth_error s i = Some f ->
    passive f = true \/ last_up evs i false = false ->
    sends_hellos f = false /\ can_form_adjacency f = false.
