(* C02/C03 specification: the decision process of RFC 4271 9.1.2 / 9.1.2.2 and RFC 4456 9 as a
   lexicographic comparison of a key, and what sort.Slice is assumed to guarantee. *)
From Coq Require Import List NArith ZArith Bool Sorting.Permutation Sorting.Sorted.
Import ListNotations.
From BioVerif Require Import Model.PathSel.
Open Scope N_scope.

(* ---------- well-formed paths: a static or a BGP path, as the protocol code constructs them
   (Type set, the pointer of that protocol non-nil, the other one nil) *)
Inductive wpath := WStatic (s : static_path) | WBGP (b : bgp_path).

Definition embed (w : wpath) : path :=
  match w with
  | WStatic s => mkpath StaticPathType (Some s) None
  | WBGP b => mkpath BGPPathType None (Some b)
  end.

Definition view (p : path) : option wpath :=
  match ptype p, pstatic p, pbgp p with
  | 1, Some s, None => Some (WStatic s)
  | 2, None, Some b => Some (WBGP b)
  | _, _, _ => None
  end.

(* ---------- the key *)

(* RFC 4456 9: ORIGINATOR_ID, if present, takes the place of the BGP identifier *)
Definition id' (b : bgp_path) : N :=
  match origid b with 0 => bgpid b | _ => origid b end.

(* RFC 4456 9: a path without CLUSTER_LIST has CLUSTER_LIST length zero *)
Definition cluster_len (b : bgp_path) : N :=
  match clist b with None => 0 | Some l => N.of_nat (length l) end.

Record bgp_key := mkkey {
  k_lp : N; k_aslen : N; k_origin : N; k_med : N; k_ebgp : bool;
  k_id : N; k_cl : N; k_src : ip; k_nh : ip }.

Inductive key := KStatic (nexthop : ip) | KBGP (k : bgp_key).

Definition bgp_key_of (b : bgp_path) : bgp_key :=
  mkkey (lp b) (aslen b) (origin b) (med b) (ebgp b) (id' b) (cluster_len b) (src b) (nh b).

Definition key_of (w : wpath) : key :=
  match w with WStatic s => KStatic (snh s) | WBGP b => KBGP (bgp_key_of b) end.

Definition pkey (p : path) : option key := option_map key_of (view p).

(* ---------- comparing keys. Result 1: the left one is preferred; -1: the right one; 0: tie *)
Definition prefer_high (x y : N) : Z :=
  match N.compare x y with Gt => 1%Z | Lt => (-1)%Z | Eq => 0%Z end.
Definition prefer_low (x y : N) : Z := prefer_high y x.
Definition prefer_true (x y : bool) : Z :=
  match x, y with true, false => 1%Z | false, true => (-1)%Z | _, _ => 0%Z end.
Definition andthen (c d : Z) : Z := if (c =? 0)%Z then d else c.
Infix ";;" := andthen (at level 61, right associativity).

(* addresses compare as (higher, lower) pairs of words, i.e. numerically *)
Definition prefer_high_ip (a b : ip) : Z :=
  prefer_high (ip_hi a) (ip_hi b) ;; prefer_high (ip_lo a) (ip_lo b).
Definition prefer_low_ip (a b : ip) : Z := prefer_high_ip b a.

Definition rfc_cmp_bgp (a b : bgp_key) : Z :=
  prefer_high (k_lp a) (k_lp b) ;;            (* 9.1.2: highest degree of preference *)
  prefer_low (k_aslen a) (k_aslen b) ;;       (* a) shortest AS_PATH *)
  prefer_low (k_origin a) (k_origin b) ;;     (* b) lowest ORIGIN *)
  prefer_low (k_med a) (k_med b) ;;           (* c) lowest MED (compared across all neighbour ASes) *)
  prefer_true (k_ebgp a) (k_ebgp b) ;;        (* d) eBGP over iBGP *)
                                              (* e) interior cost: not implemented *)
  prefer_low (k_id a) (k_id b) ;;             (* f) lowest BGP identifier / ORIGINATOR_ID *)
  prefer_low (k_cl a) (k_cl b) ;;             (*    RFC 4456: shorter CLUSTER_LIST *)
  prefer_low_ip (k_src a) (k_src b) ;;        (* g) lowest peer address *)
  prefer_high_ip (k_nh a) (k_nh b).           (* beyond the RFC: higher next hop *)

(* protocols: the higher Type value wins (route.Path.Select; BGP = 2 over static = 1) *)
Definition rfc_cmp (a b : key) : Z :=
  match a, b with
  | KBGP x, KBGP y => rfc_cmp_bgp x y
  | KStatic x, KStatic y => prefer_high_ip x y
  | KBGP _, KStatic _ => 1%Z
  | KStatic _, KBGP _ => (-1)%Z
  end.

(* equal-cost: same protocol and, for BGP, equal LOCAL_PREF, AS_PATH length, ORIGIN and MED *)
Definition ecmp_key (a b : key) : bool :=
  match a, b with
  | KBGP x, KBGP y =>
    (k_lp x =? k_lp y) && (k_aslen x =? k_aslen y) && (k_origin x =? k_origin y) && (k_med x =? k_med y)
  | KStatic _, KStatic _ => true
  | _, _ => false
  end.

Definition equal_cost (a b : wpath) : bool := ecmp_key (key_of a) (key_of b).

(* the ECMP count as a function of the sorted key list *)
Fixpoint ecmp_count_keys (ks : list key) : N :=
  match ks with
  | [] => 0
  | a :: t =>
    match t with
    | [] => 1
    | b :: _ => if ecmp_key a b then N.succ (ecmp_count_keys t) else 1
    end
  end.

(* the preference relation of the implementation on well-formed paths *)
Definition prefers (a b : wpath) : Prop :=            (* a is at least as good as b *)
  path_select (embed a) (embed b) = Ok 1%Z \/ path_select (embed a) (embed b) = Ok 0%Z.
Definition strictly_prefers (a b : wpath) : Prop := path_select (embed a) (embed b) = Ok 1%Z.
Definition tied (a b : wpath) : Prop := path_select (embed a) (embed b) = Ok 0%Z.

(* address order used in the statement of step g) *)
Definition ip_lt (a b : ip) : Prop :=
  ip_hi a < ip_hi b \/ (ip_hi a = ip_hi b /\ ip_lo a < ip_lo b).

(* "equal up to and including the eBGP-over-iBGP step" *)
Definition same_upto_ebgp (a b : bgp_path) : Prop :=
  lp a = lp b /\ aslen a = aslen b /\ origin a = origin b /\ med a = med b /\ ebgp a = ebgp b.

(* ---------- what sort.Slice(paths, less) is assumed to deliver: some permutation of its input in
   which no element is `less` than its predecessor. (Nothing is assumed about which such
   permutation; sort.Slice is not stable.) *)
Definition not_less_than_pred (a b : path) : Prop := less b a = Ok false.

Definition sort_admits (input output : list path) : Prop :=
  Permutation input output /\ Sorted not_less_than_pred output.

(* Route.PathSelection, relationally: the new path list and the ECMP count *)
Definition best (o : list path) : option path := hd_error o.

Definition ecmp_set (o : list path) : list path :=
  match ecmp_count o with Ok n => firstn (N.to_nat n) o | Panic => [] end.

(* ---------- histories of LocRIB.AddPath / RemovePath on one prefix, with any admissible sort *)
Inductive runs : list path -> list op -> list path -> Prop :=
| runs_nil : forall s, runs s [] s
| runs_add : forall s p o ops s',
    sort_admits (s ++ [p]) o -> runs o ops s' -> runs s (Add p :: ops) s'
| runs_remove : forall s p r o ops s',
    remove_path s p = Ok r -> sort_admits r o -> runs o ops s' -> runs s (Remove p :: ops) s'.

(* the multiset of candidates a history leaves behind *)
Inductive wop := WAdd (w : wpath) | WRemove (w : wpath).

Definition embed_op (o : wop) : op :=
  match o with WAdd w => Add (embed w) | WRemove w => Remove (embed w) end.

Definition ip_eq_dec (a b : ip) : {a = b} + {a <> b}.
Proof. decide equality; apply N.eq_dec. Defined.

Definition bgp_path_eq_dec (a b : bgp_path) : {a = b} + {a <> b}.
Proof.
  decide equality; try apply N.eq_dec; try apply ip_eq_dec; try apply Bool.bool_dec.
  decide equality. apply (list_eq_dec N.eq_dec).
Defined.

Definition wpath_eq_dec (a b : wpath) : {a = b} + {a <> b}.
Proof.
  decide equality; [ decide equality; apply ip_eq_dec | apply bgp_path_eq_dec ].
Defined.

Fixpoint remove1 (w : wpath) (l : list wpath) : list wpath :=
  match l with
  | [] => []
  | x :: l' => if wpath_eq_dec x w then l' else x :: remove1 w l'
  end.

Definition bag_step (b : list wpath) (o : wop) : list wpath :=
  match o with WAdd w => b ++ [w] | WRemove w => remove1 w b end.

Definition bag (h : list wop) : list wpath := fold_left bag_step h [].

(* the executable run (insertion sort as the sort) *)
Fixpoint run_exec (s : list path) (ops : list op) : res (list path) :=
  match ops with
  | [] => Ok s
  | o :: ops' => match step s o with Ok s' => run_exec s' ops' | Panic => Panic end
  end.
