(* C05 / C06 specification.  Written against the property text, not against the code:
   - which received paths are ineligible (the five clauses of C06),
   - what a session currently announces: the latest announcement per prefix (per prefix and path
     identifier with add-path receive) that was not withdrawn or flushed,
   - its contribution to a Loc-RIB: the eligible ones, as rewritten by the import policy. *)
From Coq Require Import List NArith Bool.
Import ListNotations.
From BioVerif Require Import Model.AdjRIBIn.
Open Scope N_scope.

(* the local ASNs / cluster ids of the VRF: one occurrence per established session using them *)
Definition mset := list N.
Fixpoint ms_remove (v : N) (m : mset) : mset :=
  match m with
  | [] => []
  | x :: r => if x =? v then r else x :: ms_remove v r
  end.
Definition ms_mem (v : N) (m : mset) : bool := existsb (N.eqb v) m.

(* ---- the five clauses *)
Definition own_asn_in_path (las : mset) (q : path) : bool := existsb (fun a => ms_mem a las) (aspath q).
Definition own_originator (sa : sattrs) (q : path) : bool := origid q =? rid sa.
Definition own_cluster_in_list (lcs : mset) (q : path) : bool := existsb (fun c => ms_mem c lcs) (clist q).
(* RFC 9234 section 5, ingress; roles: 0 Provider, 1 RS, 2 RS-Client, 3 Customer, 4 Peer (the role
   the neighbour announced); the check only exists when both sides negotiated roles *)
Definition roles_negotiated (sa : sattrs) : bool := role_on sa && role_adv sa.
Definition otc_check_fails (sa : sattrs) (q : path) : bool :=
  roles_negotiated sa && negb (otc q =? 0) &&
  ((role_remote sa =? 3) || (role_remote sa =? 2) ||
   ((role_remote sa =? 4) && negb (otc q =? peer_asn sa))).
Definition empty_aspath_on_ebgp (sa : sattrs) (q : path) : bool := negb (ibgp sa) && is_nil (aspath q).

Definition ineligible (sa : sattrs) (las lcs : mset) (q : path) : bool :=
  own_asn_in_path las q || own_originator sa q || own_cluster_in_list lcs q ||
  otc_check_fails sa q || empty_aspath_on_ebgp sa q.

(* what an eligible announcement is stored as: OTC added when received without one from a
   Provider, Peer or RS (RFC 9234), default LOCAL_PREF on eBGP when none was received *)
Definition normalize (sa : sattrs) (q : path) : path :=
  let q1 := if roles_negotiated sa && (otc q =? 0) &&
               ((role_remote sa =? 0) || (role_remote sa =? 4) || (role_remote sa =? 1))
            then set_otc q (peer_asn sa) else q in
  let q2 := if negb (ibgp sa) && (lpref q1 =? 0) then set_lpref q1 (deflp sa) else q1 in
  set_hid q2 0.

(* ---- current announcements *)
Record ann := mkAnn { a_pfx : pfx; a_path : path; a_ok : bool }.

Record sstate := mkSS { s_anns : list ann; s_las : mset; s_lcs : mset }.

(* same prefix, and with add-path receive the same path identifier *)
Definition same_slot (ap : bool) (p : pfx) (i : N) (a : ann) : bool :=
  (a_pfx a =? p) && (negb ap || (pid (a_path a) =? i)).

Definition spec_step (sa : sattrs) (sp : sstate) (o : op) : sstate :=
  match o with
  | Announce p q =>
      let ok := negb (ineligible sa (s_las sp) (s_lcs sp) q) in
      mkSS (filter (fun a => negb (same_slot (addpath_rx sa) p (pid q) a)) (s_anns sp)
              ++ [mkAnn p (if ok then normalize sa q else q) ok])
           (s_las sp) (s_lcs sp)
  | Withdraw p i =>
      mkSS (filter (fun a => negb (same_slot (addpath_rx sa) p i a)) (s_anns sp)) (s_las sp) (s_lcs sp)
  | WithdrawAll p =>
      mkSS (filter (fun a => negb (a_pfx a =? p)) (s_anns sp)) (s_las sp) (s_lcs sp)
  | Flush => mkSS [] (s_las sp) (s_lcs sp)
  | AddASN a => mkSS (s_anns sp) (a :: s_las sp) (s_lcs sp)
  | DelASN a => mkSS (s_anns sp) (ms_remove a (s_las sp)) (s_lcs sp)
  | AddCID a => mkSS (s_anns sp) (s_las sp) (a :: s_lcs sp)
  | DelCID a => mkSS (s_anns sp) (s_las sp) (ms_remove a (s_lcs sp))
  | Register _ | Unregister _ | ReplaceChain _ => sp
  end.

Definition spec_run (sa : sattrs) (ops : list op) : sstate := fold_left (spec_step sa) ops (mkSS [] [] []).

(* the session's contribution under import policy pol *)
Definition contribution (pol : policy) (anns : list ann) : list (pfx * path) :=
  flat_map (fun a => if a_ok a then
                       match pol (a_pfx a) (a_path a) with
                       | Some q' => [(a_pfx a, q')]
                       | None => []
                       end
                     else []) anns.

(* the policy in force after a history *)
Definition final_policy (pol : policy) (ops : list op) : policy :=
  fold_left (fun c o => match o with ReplaceChain c' => c' | _ => c end) ops pol.

(* who is registered after a history *)
Definition spec_regs (ops : list op) : list N :=
  fold_left (fun r o => match o with
                        | Register c => if existsb (N.eqb c) r then r else r ++ [c]
                        | Unregister c => filter (fun k => negb (k =? c)) r
                        | _ => r end) ops [].

(* ---- hypotheses on histories *)
(* a client is registered only while it is not registered (the API contract of Register) *)
Fixpoint reg_once (r : list N) (ops : list op) : bool :=
  match ops with
  | [] => true
  | Register c :: t => negb (existsb (N.eqb c) r) && reg_once (r ++ [c]) t
  | Unregister c :: t => reg_once (filter (fun k => negb (k =? c)) r) t
  | _ :: t => reg_once r t
  end.

(* the import policy never rewrites the path identifier (no filter action does) *)
Definition id_preserving (c : policy) : Prop := forall p q q', c p q = Some q' -> pid q' = pid q.

(* whenever the policy is replaced, the old and the new one are id-preserving; histories with a
   fixed policy satisfy this for ANY policy *)
Fixpoint replace_ok (cur : policy) (ops : list op) : Prop :=
  match ops with
  | [] => True
  | ReplaceChain c' :: t => id_preserving cur /\ id_preserving c' /\ replace_ok c' t
  | _ :: t => replace_ok cur t
  end.

Definition fixed_policy (ops : list op) : Prop :=
  forall o, In o ops -> match o with ReplaceChain _ => False | _ => True end.

(* Path.Compare ignores OnlyToCustomer and HiddenReason: paths up to those two *)
Definition pkey (q : path) : path := set_hid (set_otc q 0) 0.
Definition ekey (e : pfx * path) : pfx * path := (fst e, pkey (snd e)).

(* ---- C06: where a path held by a client may come from *)
(* (p, qn): some announcement for p in the history was eligible when it was received, and qn is what
   the session stores for it *)
Definition eligible_src (a : sattrs) (ops : list op) (p : pfx) (qn : path) : Prop :=
  exists pre q post, ops = pre ++ Announce p q :: post /\
    ineligible a (s_las (spec_run a pre)) (s_lcs (spec_run a pre)) q = false /\
    qn = normalize a q.
(* the policies that were in force at some time *)
Definition policy_of (pol : policy) (ops : list op) (c : policy) : Prop := c = pol \/ In (ReplaceChain c) ops.
(* q' at prefix p is the image, under one of those policies, of an eligible announcement for p *)
Definition justified (a : sattrs) (pol : policy) (ops : list op) (p : pfx) (q' : path) : Prop :=
  exists qn c, eligible_src a ops p qn /\ policy_of pol ops c /\ c p qn = Some q'.
(* the path a call hands to a client *)
Definition delivered (e : event) : option (N * pfx * path) :=
  match e with
  | EvAdd c p q | EvDump c p q => Some (c, p, q)
  | EvReplace c p _ n => Some (c, p, n)
  | EvRemove _ _ _ | EvEOR _ => None
  end.

(* RFC 9234 section 5 ingress rule as a table: role of the neighbour x (OTC absent / = neighbour AS / other) *)
Definition otc_table (remote : N) (otc_present : bool) (otc_is_peer_as : bool) : bool :=
  match remote with
  | 0 | 1 => false                                   (* from Provider / RS: never a leak at ingress *)
  | 2 | 3 => otc_present                             (* from RS-Client / Customer: leak iff OTC present *)
  | 4 => otc_present && negb otc_is_peer_as          (* from Peer: leak iff OTC present and not the peer's AS *)
  | _ => false
  end.
