(* C24 specification: RFC 4271 section 6.8 (connection collision detection) with the RFC 6286 extension,
   as a reference machine in which every received message is processed ATOMICALLY (the RFC's FSM has no
   "returned but not yet stored" states and no event in flight between two connections).

   Per connection: no connection yet / OpenSent / OpenConfirm / Established / closed by the collision
   procedure (Cease NOTIFICATION sent, connection closed) / OPEN rejected (Bad BGP Identifier, RFC 6286 2.2).
   The implementation's internal steps (publication of a state, delivery and handling of the Cease event)
   are invisible here. *)
From Coq Require Import List NArith Bool.
Import ListNotations.
From BioVerif Require Import Model.Collision.

Inductive sstate := SNone | SOpenSent | SOpenConfirm | SEstablished | SClosedCease | SRejected.

Record spec := mkspec { s0 : sstate; s1 : sstate }.
Definition sget (s : spec) (i : idx) : sstate := if i then s1 s else s0 s.
Definition sset (s : spec) (i : idx) (x : sstate) : spec := if i then mkspec (s0 s) x else mkspec x (s1 s).

(* RFC 4271 6.8: "The BGP Identifier of the local system is compared to the BGP Identifier of the remote system
   (as specified in the OPEN message)"; RFC 6286 2.3: with identical identifiers the AS numbers decide
   (the connection initiated by the speaker with the larger AS number is preserved). *)
Definition local_less (c : cfg) (remote_id : N) : bool :=
  N.ltb (rid c) remote_id || (N.eqb (rid c) remote_id && N.ltb (las c) (pas c)).

Definition is_sopen_sent (x : sstate) : bool := match x with SOpenSent => true | _ => false end.
Definition is_snone (x : sstate) : bool := match x with SNone => true | _ => false end.

Definition spec_step (c : cfg) (s : spec) (l : label) : spec :=
  match l with
  | LUp => if is_snone (s0 s) then sset s false SOpenSent else s
  | LAccept => if is_snone (s1 s) then sset s true SOpenSent else s
  | LOpen i id =>
    if is_sopen_sent (sget s i) then
      if N.eqb (las c) (pas c) && N.eqb (rid c) id then sset s i SRejected
      else match sget s (negb i) with
           | SEstablished =>
             (* "a connection collision with an existing BGP connection that is in the Established state
                causes closing of the newly created connection" *)
             sset s i SClosedCease
           | SOpenConfirm =>
             (* "If the value of the local BGP Identifier is less than the remote one, the local system closes
                the BGP connection that already exists (the one that is already in the OpenConfirm state), and
                accepts the BGP connection initiated by the remote system. Otherwise, the local system closes
                the newly created BGP connection (the one associated with the newly received OPEN message), and
                continues to use the existing one" *)
             if local_less c id
             then sset (sset s (negb i) SClosedCease) i SOpenConfirm
             else sset s i SClosedCease
           | _ => sset s i SOpenConfirm
           end
    else s
  | LKeep i =>
    match sget s i with SOpenConfirm => sset s i SEstablished | _ => s end
  | LPublish _ | LTake _ | LHandle _ => s
  end.

Fixpoint spec_run (c : cfg) (s : spec) (ls : list label) : spec :=
  match ls with
  | [] => s
  | l :: ls' => spec_run c (spec_step c s l) ls'
  end.

Definition spec_init : spec := mkspec SNone SNone.

(* a connection that takes part in the session: OpenConfirm or Established *)
Definition up (x : sstate) : bool := match x with SOpenConfirm | SEstablished => true | _ => false end.

(* ---- the class of schedules in which the implementation behaves like the reference machine ---------- *)

(* (1) each OPEN is processed when the other FSM has stored every state it computed ("each publication happens
       before the other's check"): no collision check looks at a stale published state;
   (2) an FSM that another one is asking to cease (a Cease event is in flight to it) takes that event before
       any KEEPALIVE. *)
Definition window_ok (p : peer) (l : label) : bool :=
  match l with
  | LOpen i _ => is_none (pend (get p (negb i)))
  | _ => true
  end.
Definition cease_first_ok (p : peer) (l : label) : bool :=
  match l with
  | LKeep j => negb (held p j)
  | _ => true
  end.
Definition guard_ok (p : peer) (l : label) : bool := window_ok p l && cease_first_ok p l.

Fixpoint along (g : peer -> label -> bool) (p : peer) (ls : list label) : bool :=
  match ls with
  | [] => true
  | l :: ls' => g p l && match step p l with Some p' => along g p' ls' | None => true end
  end.
Definition serialised : peer -> list label -> bool := along guard_ok.
Definition checks_after_publication : peer -> list label -> bool := along window_ok.

(* ---- how an implementation state is read as a state of the reference machine ----------------------- *)
Definition view (s : fstate) : sstate :=
  match s with
  | Absent | Connect | Active => SNone
  | Idle => SRejected
  | OpenSent => SOpenSent
  | OpenConfirm => SOpenConfirm
  | Established => SEstablished
  end.

(* an FSM that ended, that has taken a Cease event or to which one is in flight has lost the collision;
   an FSM blocked in cease() has won it and will be OpenConfirm; a computed state counts as reached *)
Definition abs_inst (f : inst) (cease_in_flight : bool) : sstate :=
  if is_absent (pub f) then SNone
  else if negb (alive f) || cease_in_flight || ceasing f then SClosedCease
  else if waiting f then SOpenConfirm
  else view (match pend f with Some s => s | None => pub f end).

Definition abs (p : peer) : spec :=
  mkspec (abs_inst (f0 p) (held p false)) (abs_inst (f1 p) (held p true)).
