(* C31 specification: notions about the history of events that the property's text uses,
   defined on the event list alone (independent of the model's state). *)
From Coq Require Import List Bool NArith.
Import ListNotations.
From BioVerif Require Import Model.Adj.
Open Scope N_scope.

(* Did the most recent accepted hello of neighbor k list us? None: no accepted hello so far. *)
Definition track (lv : N -> option bool) (e : event) : N -> option bool :=
  match e with
  | Hello k _ Lists => fun x => if N.eqb x k then Some true else lv x
  | Hello k _ NotLists => fun x => if N.eqb x k then Some false else lv x
  | _ => lv
  end.

Definition last_valid (evs : list event) : N -> option bool :=
  fold_left track evs (fun _ => None).

(* neighbor k is silent in evs: no accepted hello from it *)
Definition silent_ev (k : N) (e : event) : bool :=
  match e with
  | Hello k' _ Lists => negb (N.eqb k' k)
  | Hello k' _ NotLists => negb (N.eqb k' k)
  | _ => true
  end.
Definition silent (k : N) (evs : list event) : bool := forallb (silent_ev k) evs.

(* every clock advance is by at least one second (the checker's ticker period) *)
Definition tick_pos (e : event) : bool :=
  match e with Tick d => 0 <? d | _ => true end.
Definition ticks_pos (evs : list event) : bool := forallb tick_pos evs.

Fixpoint count_ticks (evs : list event) : N :=
  match evs with
  | [] => 0
  | Tick _ :: r => 1 + count_ticks r
  | _ :: r => count_ticks r
  end.

(* Upper bound on the number of checker runs a silent neighbor survives:
   until its holding time has passed, plus the 120 s a Down adjacency is kept (+ boundary ticks). *)
Definition rank (nw : N) (nb : nbr) : N :=
  if is_down (state nb) then (changed nb + 121) - nw
  else (timeout nb + 1 - nw) + 122.
