(* Specification for C21: which NOTIFICATION RFC 4271 section 6 (with RFC 4271 4.2 for the hold time)
   owes to a malformed transmission, written from the RFC text, independently of the decoder model.
   A message may be wrong in several ways at once; the RFC does not order the checks, so the
   specification is a relation: any applicable (code, subcode) is acceptable. *)
From Coq Require Import List NArith Bool.
Import ListNotations.
From BioVerif Require Import Model.FSM.
Local Open Scope N_scope.

(* section 6.1: message header errors, (1, subcode) *)
Inductive header_error (marker_ok : bool) (len typ : N) : N * N -> Prop :=
| he_marker : marker_ok = false -> header_error marker_ok len typ (1, 1)            (* Connection Not Synchronized *)
| he_len_range : len < 19 \/ 4096 < len -> header_error marker_ok len typ (1, 2)    (* Bad Message Length *)
| he_len_open : typ = 1 -> len < 29 -> header_error marker_ok len typ (1, 2)
| he_len_update : typ = 2 -> len < 23 -> header_error marker_ok len typ (1, 2)
| he_len_notification : typ = 3 -> len < 21 -> header_error marker_ok len typ (1, 2)
| he_len_keepalive : typ = 4 -> len <> 19 -> header_error marker_ok len typ (1, 2)
| he_type : typ = 0 \/ 4 < typ -> header_error marker_ok len typ (1, 3).            (* Bad Message Type *)

(* section 6.2: OPEN message errors that do not depend on the configuration, (2, subcode) *)
Inductive open_error (o : open_msg) : N * N -> Prop :=
| oe_version : o_ver o <> 4 -> open_error o (2, 1)                                   (* Unsupported Version Number *)
| oe_id : o_id o = 0 -> open_error o (2, 3)                                          (* Bad BGP Identifier *)
| oe_hold : o_hold o = 1 \/ o_hold o = 2 -> open_error o (2, 6).                     (* Unacceptable Hold Time *)

(* what a transmission owes; an undecodable OPEN or UPDATE body owes some OPEN (2) / UPDATE (3) error *)
Inductive owes : msg -> N * N -> Prop :=
| ow_header : forall mk len typ avail e, header_error mk len typ e -> owes (MHeader mk len typ avail) e
| ow_zero_open : forall mk len avail, (* a header announcing an OPEN followed by an all-zero body: version 0 *)
    owes (MHeader mk len 1 avail) (2, 1)
| ow_open : forall o e, open_error o e -> owes (MOpen o) e
| ow_body : forall sub code, code = 2 \/ code = 3 -> owes MBadBody (code, sub).

Definition malformed (m : msg) : Prop := exists e, owes m e.

(* the classes for which the decoder produces a classified error (packet.BGPError); MBadBody is not one *)
Definition classified (m : msg) : bool := match m with MBadBody => false | _ => true end.
