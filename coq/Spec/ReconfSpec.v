(* C36 - specification: a reload ends in the sessions a fresh start with the new file gives. *)
From Coq Require Import List NArith PArith Bool.
Import ListNotations.
From BioVerif Require Import Model.Reconf.

(* starting fresh with the new configuration *)
Definition fresh (c : config) : option outcome := start c.

(* same set of BGP sessions (keys = VRF + peer address) with the same stored configuration,
   effective settings, capabilities and policies: the peer maps agree on every key *)
Definition same_sessions (a b : state) : Prop :=
  forall k : key, lookup k (s_peers a) = lookup k (s_peers b).

(* what the new configuration asks for at key k: the peer built from the last neighbor entry
   with that key (a later entry of the file overrides an earlier one), None if there is none *)
Fixpoint wanted (rid : N) (vs : list (positive * N)) (ns : list lneighbor) (k : key) : option peer :=
  match ns with
  | [] => None
  | n :: r =>
    match wanted rid vs r k with
    | Some p => Some p
    | None =>
      match determine_vrf vs n with
      | Some v => if key_eqb (v, ln_addr n) k then Some (new_peer (new_peer_config rid v n)) else None
      | None => None
      end
    end
  end.
