(* C09 specification vocabulary (RFC 1997 well-known communities, RFC 4271 9.1/5.1, RFC 4456, RFC 9234). *)
From Coq Require Import List NArith Bool.
Import ListNotations.
From BioVerif Require Import Model.PathIDs Model.AdjRIBOut Model.ExportWire.
Local Open Scope N_scope.

Definition has_comm (c : N) (b : bgp) : Prop := In c (olist (b_comms b)).

(* peer roles as the session's remote role code (RFC 9234) *)
Definition role_provider : N := 0.
Definition role_rs : N := 1.
Definition role_rs_client : N := 2.
Definition role_customer : N := 3.
Definition role_peer : N := 4.

(* the peer is known (roles negotiated, eBGP) to be one of the listed roles *)
Definition peer_is (s : sess) (roles : list N) : Prop :=
  s_ibgp s = false /\ s_role_on s = true /\ In (s_role s) roles.

(* the identity policy: what a session exports when the export filter chain accepts everything unchanged *)
Definition accept_all : N -> path -> option path := fun _ p => Some p.

(* the AS_PATH read as its sequence of ASNs / AS_SETs has asn in front of what it had before *)
Definition asn_prepended (asn : N) (before after : bgp) : Prop :=
  as_tokens (b_aspath after) = TAsn asn :: as_tokens (b_aspath before).

Definition on_wire (s : sess) (b : bgp) (a : wattr) : Prop := In a (sess_wire s b).
