(* C35 specification: directed graphs given as an edge list, paths, minimal distance. *)
From Coq Require Import List NArith ZArith Bool Permutation.
Import ListNotations.
From BioVerif Require Import Model.Dijkstra.
Open Scope Z_scope.

(* A graph gives the weight of the edge u -> v, if there is one. *)
Definition graph := node -> node -> option Z.

(* The graph of an edge list: when the list names u -> v several times the LAST entry counts
   (NewTopology overwrites). *)
Fixpoint last_weight (es : list edge) (u v : node) : option Z :=
  match es with
  | [] => None
  | e :: r =>
    match last_weight r u v with
    | Some w => Some w
    | None => if N.eqb (ea e) u && N.eqb (eb e) v then Some (ew e) else None
    end
  end.
Definition graph_of (es : list edge) : graph := last_weight es.

Fixpoint weight (p : list edge) : Z :=
  match p with [] => 0 | e :: r => ew e + weight r end.

(* p is a walk s -> ... -> t along edges of g carrying g's weights ([] is the empty walk s = t) *)
Fixpoint is_path (g : graph) (s t : node) (p : list edge) : Prop :=
  match p with
  | [] => s = t
  | e :: r => ea e = s /\ g (ea e) (eb e) = Some (ew e) /\ is_path g (eb e) t r
  end.

Definition reachable (g : graph) (s t : node) : Prop := exists p, is_path g s t p.

Definition shortest (g : graph) (s t : node) (p : list edge) : Prop :=
  is_path g s t p /\ forall q, is_path g s t q -> weight p <= weight q.

(* what SPT must report for node v *)
Definition node_result_ok (g : graph) (src v : node) (r : path) : Prop :=
  (shortest g src v (pedges r) /\ pdist r = weight (pedges r))
  \/ (~ reachable g src v /\ pdist r = -1 /\ pedges r = []).

(* the result is a tree: the path recorded for v is the path recorded for v's predecessor plus one edge *)
Definition tree_ok (spt : list (node * path)) : Prop :=
  forall v r q e, get v spt = Some r -> pedges r = q ++ [e] ->
    eb e = v /\ exists ru, get (ea e) spt = Some ru /\ pedges ru = q.

(* ---- the property's domain *)
(* edges connect listed nodes; weights are non-negative and at most W *)
Definition in_domain (nodes : list node) (es : list edge) (W : Z) : Prop :=
  forall e, In e es -> In (ea e) nodes /\ In (eb e) nodes /\ 0 <= ew e <= W.
(* no path of at most |nodes| edges can overflow int64 *)
Definition no_overflow (nodes : list node) (W : Z) : Prop :=
  Z.of_nat (length nodes) * W < two63.
(* map iteration visits every key exactly once, in any order *)
Definition oracle_ok (o : oracle) : Prop :=
  (forall k l, Permutation (ord_edges o k l) l) /\ (forall k l, Permutation (ord_nodes o k l) l).

(* ---- executable path check (used by the model driver on the implementation's output) *)
Definition opt_eqb (a : option Z) (b : Z) : bool :=
  match a with Some x => Z.eqb x b | None => false end.
Fixpoint is_path_b (g : graph) (s t : node) (p : list edge) : bool :=
  match p with
  | [] => N.eqb s t
  | e :: r => N.eqb (ea e) s && opt_eqb (g (ea e) (eb e)) (ew e) && is_path_b g (eb e) t r
  end.
