(* C16 specification: what "decoding is total and bounded" means for the decoder model.
   decode fuel opts b : outcome msg * N   (Model/BGPCodec.v)
     outcome = Ok m rest | Err | Panic why | OutOfFuel,  second component = bytes requested by
     length-driven make() calls. *)
From Coq Require Import List NArith.
From BioVerif Require Import Model.BGPCodec.
Local Open Scope N_scope.

Definition is_panic {A} (o : outcome A) : Prop := match o with Panic _ => True | _ => False end.

(* the explicit allocation bound: c1 + c2 * length, c1 = 65535 (largest attribute length), c2 = 3 *)
Definition alloc_c1 : N := 65535.
Definition alloc_c2 : N := 3.
Definition alloc_bound (b : list N) : N := alloc_c1 + alloc_c2 * len b.

(* a result: a message together with the unread rest of the buffer, or an error *)
Definition returns_msg_or_error (r : outcome msg * N) : Prop :=
  (exists m rest, fst r = Ok m rest) \/ fst r = Err.
