(* C17 specification: which structures the serializers can represent under the session's options (the wf_ predicates),
   and what the receiver decodes (the canon_ functions: the same content, with the length and flag fields the serializer
   computed). *)
From Coq Require Import List NArith Bool.
Import ListNotations.
From BioVerif Require Import Model.BGPCodec Model.BGPEncode.
Local Open Scope N_scope.

Definition u32 (v : N) : Prop := v < 4294967296.
Definition u64 (v : N) : Prop := v < 18446744073709551616.

(* a prefix of family afi: length within the family, no address bytes set beyond the ones that are sent
   (NLRI.serialize cuts the address after BytesInAddr(len) bytes), IPv6: no host bits (the decoder checks) *)
Definition wf_prefix (afi : N) (p : prefix) : Prop :=
  p_len p <= afiAddrLen afi * 8 /\
  allZero (skipn (N.to_nat (bytesInAddr (p_len p))) (ipBytes (p_ip p))) = true /\
  match p_ip p with
  | IP4 v => afi = 1 /\ u32 v
  | IP6 hi lo => afi = 2 /\ u64 hi /\ u64 lo /\ validPfx (IP6 hi lo) (p_len p) = true
  end.

(* unicast NLRI; the path identifier is only transmitted with add-path *)
Definition wf_nlri (afi : N) (ap : bool) (n : nlri) : Prop :=
  n_labels n = [] /\ u32 (n_id n) /\ (ap = false -> n_id n = 0) /\ wf_prefix afi (n_pfx n).
