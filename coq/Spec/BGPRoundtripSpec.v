(* C17 specification: which structures the serializers can represent under the session's options (the wf_ predicates),
   and what the receiver decodes (the canon_ functions: the same content, with the length and flag fields the serializer
   computed). *)
From Coq Require Import List NArith Bool.
Import ListNotations.
From BioVerif Require Import Model.BGPCodec Model.BGPEncode.
Local Open Scope N_scope.

Definition u32 (v : N) : Prop := v < 4294967296.
Definition u64 (v : N) : Prop := v < 18446744073709551616.

(* a prefix of family afi: length within the family, no address bytes set beyond the ones that are sent
   (NLRI.serialize cuts the address after BytesInAddr(len) bytes), IPv6: no host bits (the decoder checks) *)
Definition wf_prefix (afi : N) (p : prefix) : Prop :=
  p_len p <= afiAddrLen afi * 8 /\
  allZero (skipn (N.to_nat (bytesInAddr (p_len p))) (ipBytes (p_ip p))) = true /\
  match p_ip p with
  | IP4 v => afi = 1 /\ u32 v
  | IP6 hi lo => afi = 2 /\ u64 hi /\ u64 lo /\ validPfx (IP6 hi lo) (p_len p) = true
  end.

(* unicast NLRI; the path identifier is only transmitted with add-path *)
Definition wf_nlri (afi : N) (ap : bool) (n : nlri) : Prop :=
  n_labels n = [] /\ u32 (n_id n) /\ (ap = false -> n_id n = 0) /\ wf_prefix afi (n_pfx n).

(* ------------------------------------------------------------------ path attributes *)
Definition known_type (t : N) : bool :=
  (t =? 1) || (t =? 2) || (t =? 3) || (t =? 4) || (t =? 5) || (t =? 6) || (t =? 7) || (t =? 8) || (t =? 9) ||
  (t =? 10) || (t =? 14) || (t =? 15) || (t =? 18) || (t =? 32).

Definition asn_ok (as4 : bool) (a : N) : Prop := if as4 then u32 a else a < 65536.
Definition seg_ok (as4 : bool) (s : N * list N) : Prop :=
  (fst s = 1 \/ fst s = 2) /\ 1 <= len (snd s) <= 255 /\ Forall (asn_ok as4) (snd s).

Definition nonempty_seg (s : N * list N) : bool := negb (len (snd s) =? 0).

Definition large_ok (c : N * N * N) : Prop := u32 (fst (fst c)) /\ u32 (snd (fst c)) /\ u32 (snd c).

Definition nexthop_ok (nh : ip) : Prop := ipFromBytes (ipBytes nh) = Some nh.

Definition bytes_ok (l : list N) : Prop := Forall (fun x => x < 256) l.


(* what the serializer of the attribute's type code can represent under the options o *)
Definition wf_attr (o : eopts) (a : attr) : Prop :=
  let t := a_type a in
  let ap afi := addPathFor (doptsOf o) afi 1 in
  if t =? 1 then exists v, a_val a = AVOrigin v /\ v < 256
  else if t =? 2 then
    exists segs, a_val a = AVASPath segs /\ Forall (seg_ok (use32 o)) (filter nonempty_seg segs)
  else if t =? 3 then exists v, a_val a = AVNextHop (IP4 v) /\ u32 v
  else if (t =? 4) || (t =? 5) || (t =? 9) then exists v, a_val a = AVU32 v /\ u32 v
  else if t =? 6 then a_val a = AVNone
  else if t =? 7 then exists asn ad, a_val a = AVAggregator asn ad /\ asn < 65536 /\ u32 ad
  else if t =? 8 then exists l, a_val a = AVComms l /\ Forall u32 l
  else if t =? 32 then exists l, a_val a = AVLarge l /\ Forall large_ok l
  else if t =? 10 then exists l, a_val a = AVCluster l /\ Forall u32 l
  else if t =? 14 then
    exists afi nh nl, a_val a = AVMPReach afi 1 nh nl /\ (afi = 1 \/ afi = 2) /\ nexthop_ok nh /\
                      Forall (wf_nlri afi (ap afi)) nl
  else if t =? 15 then
    exists afi nl, a_val a = AVMPUnreach afi 1 nl /\ (afi = 1 \/ afi = 2) /\ Forall (wf_nlri afi (ap afi)) nl
  else known_type t = false /\ t < 256 /\ exists b, a_val a = AVUnknown b /\ bytes_ok b.

(* the content that has to survive: type code and value (AS_PATH segments without ASNs carry nothing and are
   not sent); for unknown attributes also the Optional and Partial flags, Transitive being forced *)
Definition norm_val (v : attrval) : attrval :=
  match v with AVASPath segs => AVASPath (filter nonempty_seg segs) | _ => v end.
Definition same_attr (a a' : attr) : Prop :=
  a_type a' = a_type a /\ a_val a' = norm_val (a_val a) /\
  (known_type (a_type a) = false -> a_opt a' = a_opt a /\ a_trans a' = true /\ a_part a' = a_part a).
