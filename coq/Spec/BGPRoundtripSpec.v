(* C17 specification: which structures the serializers can represent under the session's options (the wf_ predicates),
   and what the receiver decodes (the canon_ functions: the same content, with the length and flag fields the serializer
   computed). *)
From Coq Require Import List NArith Bool.
Import ListNotations.
From BioVerif Require Import Model.BGPCodec Model.BGPEncode.
Local Open Scope N_scope.

Definition u32 (v : N) : Prop := v < 4294967296.
Definition u64 (v : N) : Prop := v < 18446744073709551616.

(* a prefix of family afi: length within the family, no address bytes set beyond the ones that are sent
   (NLRI.serialize cuts the address after BytesInAddr(len) bytes), IPv6: no host bits (the decoder checks) *)
Definition wf_prefix (afi : N) (p : prefix) : Prop :=
  p_len p <= afiAddrLen afi * 8 /\
  allZero (skipn (N.to_nat (bytesInAddr (p_len p))) (ipBytes (p_ip p))) = true /\
  match p_ip p with
  | IP4 v => afi = 1 /\ u32 v
  | IP6 hi lo => afi = 2 /\ u64 hi /\ u64 lo /\ validPfx (IP6 hi lo) (p_len p) = true
  end.

(* unicast NLRI; the path identifier is only transmitted with add-path *)
Definition wf_nlri (afi : N) (ap : bool) (n : nlri) : Prop :=
  n_labels n = [] /\ u32 (n_id n) /\ (ap = false -> n_id n = 0) /\ wf_prefix afi (n_pfx n).

(* ------------------------------------------------------------------ path attributes *)
Definition known_type (t : N) : bool :=
  (t =? 1) || (t =? 2) || (t =? 3) || (t =? 4) || (t =? 5) || (t =? 6) || (t =? 7) || (t =? 8) || (t =? 9) ||
  (t =? 10) || (t =? 14) || (t =? 15) || (t =? 18) || (t =? 32).

Definition asn_ok (as4 : bool) (a : N) : Prop := if as4 then u32 a else a < 65536.
Definition seg_ok (as4 : bool) (s : N * list N) : Prop :=
  (fst s = 1 \/ fst s = 2) /\ 1 <= len (snd s) <= 255 /\ Forall (asn_ok as4) (snd s).

Definition nonempty_seg (s : N * list N) : bool := negb (len (snd s) =? 0).

Definition large_ok (c : N * N * N) : Prop := u32 (fst (fst c)) /\ u32 (snd (fst c)) /\ u32 (snd c).

Definition nexthop_ok (nh : ip) : Prop := ipFromBytes (ipBytes nh) = Some nh.

Definition bytes_ok (l : list N) : Prop := Forall (fun x => x < 256) l.


(* what the serializer of the attribute's type code can represent under the options o *)
Definition wf_attr (o : eopts) (a : attr) : Prop :=
  let t := a_type a in
  let ap afi := addPathFor (doptsOf o) afi 1 in
  if t =? 1 then exists v, a_val a = AVOrigin v /\ v < 256
  else if t =? 2 then
    exists segs, a_val a = AVASPath segs /\ Forall (seg_ok (use32 o)) (filter nonempty_seg segs)
  else if t =? 3 then exists v, a_val a = AVNextHop (IP4 v) /\ u32 v
  else if (t =? 4) || (t =? 5) || (t =? 9) then exists v, a_val a = AVU32 v /\ u32 v
  else if t =? 6 then a_val a = AVNone
  else if t =? 7 then exists asn ad, a_val a = AVAggregator asn ad /\ asn < 65536 /\ u32 ad
  else if t =? 8 then exists l, a_val a = AVComms l /\ Forall u32 l
  else if t =? 32 then exists l, a_val a = AVLarge l /\ Forall large_ok l
  else if t =? 10 then exists l, a_val a = AVCluster l /\ Forall u32 l
  else if t =? 14 then
    exists afi nh nl, a_val a = AVMPReach afi 1 nh nl /\ (afi = 1 \/ afi = 2) /\ nexthop_ok nh /\
                      Forall (wf_nlri afi (ap afi)) nl
  else if t =? 15 then
    exists afi nl, a_val a = AVMPUnreach afi 1 nl /\ (afi = 1 \/ afi = 2) /\ Forall (wf_nlri afi (ap afi)) nl
  else known_type t = false /\ t < 256 /\ exists b, a_val a = AVUnknown b /\ bytes_ok b.

(* the content that has to survive: type code and value (AS_PATH segments without ASNs carry nothing and are
   not sent); for unknown attributes also the Optional and Partial flags, Transitive being forced *)
Definition norm_val (v : attrval) : attrval :=
  match v with AVASPath segs => AVASPath (filter nonempty_seg segs) | _ => v end.
Definition same_attr (a a' : attr) : Prop :=
  a_type a' = a_type a /\ a_val a' = norm_val (a_val a) /\
  (known_type (a_type a) = false -> a_opt a' = a_opt a /\ a_trans a' = true /\ a_part a' = a_part a).

(* ------------------------------------------------------------------ UPDATE *)

(* does the attribute put anything on the wire (empty communities / cluster lists do not) *)
Definition emits (o : eopts) (a : attr) : bool :=
  match encodeAttr o a with Some ([], _) => false | _ => true end.

(* the receiver's rule: if one of ORIGIN, AS_PATH, NEXT_HOP/MP_REACH_NLRI is there, all have to be *)
Definition mand_final (l : list attr) : bool :=
  let nh := hasAttr 3 l || hasAttr 14 l in
  negb (nh || hasAttr 1 l || hasAttr 2 l) || (nh && hasAttr 1 l && hasAttr 2 l).

(* what SerializeUpdate (SAFI unicast) can represent: unicast IPv4 NLRI in the two NLRI fields, representable
   attributes, and an attribute set the receiver accepts (bio-rd sends ORIGIN, AS_PATH and NEXT_HOP or
   MP_REACH_NLRI together; withdrawals carry none of them) *)
Definition wf_update (o : eopts) (u : update_msg) : Prop :=
  Forall (wf_nlri 1 (useAddPath o)) (u_withdrawn u) /\
  Forall (wf_attr o) (u_attrs u) /\
  Forall (wf_nlri 1 (useAddPath o)) (u_nlri u) /\
  mand_final (filter (emits o) (u_attrs u)) = true /\
  (u_nlri u <> [] ->
   hasAttr 1 (filter (emits o) (u_attrs u)) && hasAttr 2 (filter (emits o) (u_attrs u)) &&
   hasAttr 3 (filter (emits o) (u_attrs u)) = true).

(* the decoded UPDATE carries the same content *)
Definition same_update (o : eopts) (u u' : update_msg) : Prop :=
  u_withdrawn u' = u_withdrawn u /\ u_nlri u' = u_nlri u /\
  Forall2 same_attr (filter (emits o) (u_attrs u)) (u_attrs u').

(* ------------------------------------------------------------------ OPEN *)

Definition triple_ok (a b c : N) (t : N * N * N) : Prop := fst (fst t) < a /\ snd (fst t) < b /\ snd t < c.

(* the capabilities bio-rd announces; the one-byte capability length has to hold the value *)
Definition wf_cap (c : cap) : Prop :=
  match c_val c with
  | CVMP afi safi => c_code c = 1 /\ afi < 65536 /\ safi < 256
  | CVAddPath l => c_code c = 69 /\ Forall (triple_ok 65536 256 256) l /\ 4 * len l <= 255
  | CVASN4 a => c_code c = 65 /\ u32 a
  | CVRole r => c_code c = 9 /\ r < 256
  | CVExtNH l => c_code c = 5 /\ Forall (triple_ok 65536 65536 65536) l /\ 6 * len l <= 255
  | CVNone => False
  end.

Definition capSize (c : cap) : N :=
  2 + match c_val c with
      | CVMP _ _ => 4 | CVAddPath l => 4 * len l | CVASN4 _ => 4 | CVRole _ => 1 | CVExtNH l => 6 * len l | CVNone => 0
      end.
Definition capsSize (l : list cap) : N := fold_right (fun c s => capSize c + s) 0 l.
Definition paramsSize (l : list optparam) : N := fold_right (fun p s => 2 + capsSize (o_caps p) + s) 0 l.

Definition wf_open (m : open_msg) : Prop :=
  op_version m = 4 /\ op_asn m < 65536 /\ op_hold m < 65536 /\ op_hold m <> 1 /\ op_hold m <> 2 /\
  u32 (op_id m) /\ op_id m <> 0 /\
  Forall (fun p => o_type p = 2 /\ Forall wf_cap (o_caps p) /\ capsSize (o_caps p) <= 255) (op_params m) /\
  paramsSize (op_params m) <= 255.

(* the decoded OPEN: the same fields, capabilities and values; lengths as computed by the serializer *)
Definition canon_cap (c : cap) : cap := mkCap (c_code c) (capSize c - 2) (c_val c).
Definition canon_param (p : optparam) : optparam := mkOptParam 2 (capsSize (o_caps p)) (map canon_cap (o_caps p)).
Definition canon_open (m : open_msg) : open_msg :=
  mkOpen (op_version m) (op_asn m) (op_hold m) (op_id m) (paramsSize (op_params m)) (map canon_param (op_params m)).
