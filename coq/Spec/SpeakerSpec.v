(* Specification vocabulary of the wire-to-wire theorems (Properties/Speaker.v) and the instances of their examples. *)
From Coq Require Import List NArith ZArith Bool.
Import ListNotations.
From BioVerif Require Model.AdjRIBIn Model.LocRIBClients Model.AdjRIBOut Model.UpdateSender Model.ExportWire
  Model.BGPCodec Model.BGPEncode Spec.BGPRoundtripSpec.
From BioVerif Require Import Model.Pipeline Model.Speaker Spec.PipelineSpec.

(* what the receiver gets of the attributes of an UPDATE handed to the encoder: type code and value of every attribute
   that puts something on the wire (C17: same_attr) *)
Definition sent_attrs (o : BGPEncode.eopts) (u : BGPCodec.update_msg) : list (N * BGPCodec.attrval) :=
  map (fun a => (BGPCodec.a_type a, BGPRoundtripSpec.norm_val (BGPCodec.a_val a)))
      (filter (BGPRoundtripSpec.emits o) (BGPCodec.u_attrs u)).

Section Spec.
  Variable P : Type.
  Variable tagf : AdjRIBOut.bgp -> N.

  (* the attributes the peer receives for an exported path: packet.PathAttributes of it (C09), through the encoder *)
  Definition wire_attrs (c : spcfg P) (b : AdjRIBOut.bgp) : list (N * BGPCodec.attrval) :=
    sent_attrs (sp_enc P c) (ann_msg (sc_sess P (sp_c P c)) b 0 []).

  (* ... for the hashed attribute tuple a tag of the sender's log stands for *)
  Definition tag_attrs (c : spcfg P) (a : AdjRIBOut.aro P) (tag : N) : list (N * BGPCodec.attrval) :=
    match bgp_of_tag P tagf a tag with Some b => wire_attrs c b | None => [] end.

  (* C17's guard, on what this session's sender wrote: every message of its log stands for an UPDATE the serializer
     can represent under the session's options, and the serializer accepted it *)
  Definition sendable (c : spcfg P) (s : sst P) : Prop :=
    forall m, In m (UpdateSender.wire (ss_us P s)) ->
      exists u bs, msg_update P tagf c (ss_out P s) m = Some u /\
                   BGPRoundtripSpec.wf_update (sp_enc P c) u /\
                   BGPEncode.encodeUpdate (sp_enc P c) 1 u = BGPEncode.EOk bs.

  (* the other sessions' receiving halves: what session j's byte history amounts to *)
  Definition recv_state (s : sst P) : bool * AdjRIBIn.st * list AdjRIBIn.op := (ss_up P s, ss_in P s, ss_ops P s).
End Spec.

(* ------------------------------------------------------------------ the instance of the examples: the three sessions of
   Spec/PipelineSpec.v (two route-server clients whose announcements meet in the Loc-RIB, the second one's import policy
   sets LOCAL_PREF 300, and an iBGP listener), 4-octet AS numbers, no add-path *)
Definition ex_spcfg (c : scfg AdjRIBOut.chain) : spcfg AdjRIBOut.chain :=
  mkSpcfg AdjRIBOut.chain c (BGPCodec.mkOpts false false true false) (BGPEncode.mkEOpts false true).
Definition ex_spcfgs : list (spcfg AdjRIBOut.chain) := map ex_spcfg ex_cfgs.

(* what an Established session reads as an UPDATE *)
Definition recv_update (o : BGPCodec.options) (b : list N) : option BGPCodec.update_msg :=
  match recv_decode o b with
  | BGPCodec.Ok m _ => match BGPCodec.m_body m with BGPCodec.BUpdate u => Some u | _ => None end
  | _ => None
  end.

(* UPDATE (45 bytes): ORIGIN IGP, AS_PATH (one sequence: the given AS), NEXT_HOP 12.0.0.<h>, NLRI 0.0.0.0/1 (the RIB
   models' prefix id 1) *)
Definition ex_update_bytes (asn h : N) : list N :=
  repeat 255%N 16 ++ [0; 45; 2;  0; 0;  0; 20;  64; 1; 1; 0;  64; 2; 6; 2; 1; 0; 0; asn / 256; asn mod 256;  64; 3; 4; 12; 0; 0; h;
                      1; 0]%N.
(* the same with a Total Path Attribute Length that runs past the message: malformed *)
Definition ex_bad_bytes : list N :=
  repeat 255%N 16 ++ [0; 45; 2;  0; 0;  0; 26;  64; 1; 1; 0;  64; 2; 6; 2; 1; 0; 0; 254; 77;  64; 3; 4; 12; 0; 0; 1;
                      1; 0]%N.
Definition ex_keepalive : list N := repeat 255%N 16 ++ [0; 19; 4]%N.

Definition ex_srun (evs : list (sevent)) : spst AdjRIBOut.chain :=
  srun AdjRIBOut.chain AdjRIBOut.interp ex_sel ex_tagf ex_spcfgs evs.
Definition ex_sstep (st : spst AdjRIBOut.chain) (ev : sevent) : spst AdjRIBOut.chain :=
  sstep AdjRIBOut.chain AdjRIBOut.interp ex_sel ex_tagf ex_spcfgs st ev.

(* all three come up; both clients announce 0.0.0.0/1 - the byte version of Spec.PipelineSpec.ex_evs1 *)
Definition ex_sevs1 : list sevent :=
  [SUp 0; SUp 1; SUp 2; SRecv 0 (ex_update_bytes 65101 1); SRecv 1 (ex_update_bytes 65102 2)].
(* ... the listener's sender takes the queued announcement and writes it (ex_drain2a) *)
Definition ex_sevs2 : list sevent := ex_sevs1 ++ [SDequeue 2 (ex_key 201326594 300 167772162); SEmit 2].
