(* C28 specification: what a history of BMP messages says about the monitored sessions, and which
   routes are "announced and not withdrawn by a peer that is up". Independent of the router model's
   state: the history is read message by message into a trace of session events; `live` then scans
   that trace backwards. *)
From Coq Require Import List NArith Bool.
Import ListNotations.
From BioVerif Require Import Model.BMPCodec Model.BMPRouter.
Open Scope N_scope.

Inductive tevent :=
| EUp (k : nkey) (s : src) (ap4 ap6 : bool) (ibgp : bool) (rid : N)
    (* peer up: session key, source address, add-path per family, iBGP?, the monitored router's id *)
| EDown (k : nkey)                               (* peer down *)
| EAnn (k : nkey) (v6 : bool) (x : rkey)         (* route announced *)
| EWdr (k : nkey) (v6 : bool) (x : rkey)         (* route withdrawn *)
| EReset.                                        (* termination message / connection lost: every peer is gone *)

(* traces are kept newest event first *)

(* the session of peer k, if it is up: its source address and add-path modes *)
Fixpoint sess (tr : list tevent) (k : nkey) : option (src * bool * bool * bool * N) :=
  match tr with
  | [] => None
  | EUp k' s a4 a6 ib rid :: r => if nkey_eqb k' k then Some (s, a4, a6, ib, rid) else sess r k
  | EDown k' :: r => if nkey_eqb k' k then None else sess r k
  | EReset :: _ => None
  | _ :: r => sess r k
  end.

(* route x of family v6 was announced by peer k and since then neither withdrawn nor replaced, and the
   session of k has been up ever since *)
Fixpoint live (tr : list tevent) (k : nkey) (v6 : bool) (x : rkey) : bool :=
  match tr with
  | [] => false
  | EAnn k' v6' x' :: r =>
    if nkey_eqb k' k && Bool.eqb v6' v6 && rkey_eqb x' x
    then match sess r k with Some _ => true | None => false end
    else live r k v6 x
  | EWdr k' v6' x' :: r =>
    if nkey_eqb k' k && Bool.eqb v6' v6 && rkey_eqb x' x then false else live r k v6 x
  | EUp k' _ _ _ _ _ :: r => if nkey_eqb k' k then false else live r k v6 x
  | EDown k' :: r => if nkey_eqb k' k then false else live r k v6 x
  | EReset :: _ => false
  end.

Section Interp.
Variable open_decode : bytes -> option open_info.
Variable upd_apply : bool -> bool -> bool -> bytes -> list uevent.
Variable c : cfg.

Definition key_of_pph (h : pph) : nkey := (p_rd h, p_addr h).

Definition tevent_of (k : nkey) (ev : uevent) : tevent :=
  match ev with
  | UAnn v6 p id _ => EAnn k v6 (p, id)
  | UWdr v6 p id => EWdr k v6 (p, id)
  end.

(* what one decoded message adds to the trace tr (chronological order) *)
Definition interp (tr : list tevent) (m : bmp_msg) : list tevent :=
  match m with
  | MPeerUp h _ _ _ sent rcvd _ =>
    if ignored_asn c (p_as h) then []              (* IgnorePeerASNs: the peer is not mirrored *)
    else
    match open_decode sent, open_decode rcvd with
    | Some so, Some ro =>
      if asn_of_open ro =? p_as h
      then [EUp (key_of_pph h) (src_of h) (addpath_rx so ro 1) (addpath_rx so ro 2)
                (asn_of_open so =? p_as h) (o_bgpid so)]
      else []
    | _, _ => []
    end
  | MPeerDown h _ _ => [EDown (key_of_pph h)]
  | MRouteMon h upd =>
    if (ignore_pre c && negb (flag_l h)) || (ignore_post c && flag_l h) then []
    else match sess tr (key_of_pph h) with
         | Some (_, a4, a6, _, _) => map (tevent_of (key_of_pph h)) (upd_apply a4 a6 (negb (flag_a h)) upd)
         | None => []
         end
  | MTerm _ => [EReset]
  | _ => []
  end.

(* a frame of a well-formed history: exactly one message that decodes *)
Definition frame_msg (f : bytes) : option bmp_msg :=
  match recv f with
  | RMsg m [] _ => match decode m with (Ok x, _) => Some x | _ => None end
  | _ => None
  end.

Definition interp_action (tr : list tevent) (a : action) : list tevent :=
  match a with
  | AFrame f => match frame_msg f with Some m => interp tr m | None => [] end
  | AObserve _ _ _ => []
  | AConnLoss => [EReset]
  end.

(* the trace of a history (newest first) *)
Definition trace (acts : list action) : list tevent :=
  fold_left (fun tr a => rev (interp_action tr a) ++ tr) acts [].

(* ---- well-formedness *)

(* the peer address field of an IPv4 peer has 12 leading zero bytes *)
Definition wf_pph (h : pph) : bool := flag_v h || (p_addr h <? two32r).

(* an Adj-RIB-In call of a family without add-path carries path identifier 0; an announced path is one
   the Adj-RIB-In of the pseudo session does not hide (no contributing ASNs / cluster ids in a BMP VRF,
   so: not an eBGP path without AS_PATH, ORIGINATOR_ID not the monitored router's own id) *)
Definition wf_uevent (a4 a6 ib : bool) (rid : N) (ev : uevent) : bool :=
  match ev with
  | UAnn v6 _ id a => ((if v6 then a6 else a4) || (id =? 0)) && negb (hidden_path ib rid [] [] a)
  | UWdr v6 _ id => (if v6 then a6 else a4) || (id =? 0)
  end.

Definition wf_msg (tr : list tevent) (m : bmp_msg) : bool :=
  match m with
  | MPeerUp h _ _ _ sent rcvd _ =>
    wf_pph h &&
    match interp tr m with
    | [] => true                                   (* rejected: nothing happens *)
    | _ => match sess tr (key_of_pph h) with
           | Some _ => false                       (* peer up for a peer that is up *)
           | None => true
           end
    end
  | MPeerDown h _ _ => wf_pph h
  | MRouteMon h upd =>
    wf_pph h &&
    match sess tr (key_of_pph h) with
    | Some (_, a4, a6, ib, rid) => forallb (wf_uevent a4 a6 ib rid) (upd_apply a4 a6 (negb (flag_a h)) upd)
    | None => true
    end
  | _ => true
  end.

(* closed: a termination message was processed and the connection not yet replaced *)
Fixpoint wf_from (tr : list tevent) (closed : bool) (acts : list action) : bool :=
  match acts with
  | [] => true
  | a :: r =>
    match a with
    | AFrame f =>
      negb closed &&
      match frame_msg f with
      | Some m => wf_msg tr m &&
                  wf_from (rev (interp tr m) ++ tr) (match m with MTerm _ => true | _ => false end) r
      | None => false
      end
    | AObserve _ _ _ => wf_from tr closed r
    | AConnLoss => wf_from (EReset :: tr) false r
    end
  end.

Definition wf (acts : list action) : bool := wf_from [] false acts.

End Interp.
