(* Specification for C23: the abstract RFC 4271 session state machine with the three coupling
   requirements of the property, as a labelled transition relation.  Labels are the lists of
   observable actions ([Model.FSM.out]) that accompany a transition. *)
From Coq Require Import List NArith Bool.
Import ListNotations.
From BioVerif Require Import Model.FSM.

(* abstract state: RFC 4271 state name, "routes attached to the Loc-RIB", "TCP connection open" *)
Record astate := { a_st : sname; a_att : bool; a_open : bool }.

(* The edges of the RFC 4271 section 8.2.2 state diagram ([Ceased] = the FSM object was destroyed,
   which RFC 4271 describes as releasing all resources and staying Idle forever). *)
Definition rfc_edge (a b : sname) : bool :=
  match a, b with
  | Idle, (Idle | Connect | Active | Ceased) => true
  | Connect, (Connect | Active | OpenSent | Idle | Ceased) => true
  | Active, (Active | Connect | OpenSent | Idle | Ceased) => true
  | OpenSent, (OpenSent | Active | OpenConfirm | Idle | Ceased) => true
  | OpenConfirm, (OpenConfirm | Established | Idle | Ceased) => true
  | Established, (Established | Idle | Ceased) => true
  | Ceased, Ceased => true
  | _, _ => false
  end.

(* attachment is changed by Init / Uninit actions only *)
Fixpoint att_after (att : bool) (os : list out) : bool :=
  match os with
  | [] => att
  | Init :: r => att_after true r
  | Uninit :: r => att_after false r
  | _ :: r => att_after att r
  end.

Definition in_session (s : sname) : bool :=
  match s with OpenSent | OpenConfirm | Established => true | _ => false end.
Definition is_down (s : sname) : bool :=
  match s with Idle | Ceased => true | _ => false end.

Definition is_update (o : out) : bool :=
  match o with ProcessedUpdate _ _ | ProcessedPoison _ _ _ => true | _ => false end.
Definition is_crash (o : out) : bool := match o with Crash => true | _ => false end.

Record spec_step (a : astate) (os : list out) (b : astate) : Prop := {
  (* the transition is an edge of the RFC 4271 diagram *)
  sp_edge : rfc_edge (a_st a) (a_st b) = true;
  (* requirement 1: routes are attached to the Loc-RIB exactly while the session is Established;
     the flag changes through Init/Uninit actions only *)
  sp_att_by_actions : a_att b = att_after (a_att a) os;
  sp_att_iff_established : a_att b = true <-> a_st b = Established;
  (* requirement 2: UPDATEs are only processed in Established *)
  sp_update_established : existsb is_update os = true -> a_st a = Established /\ a_st b = Established;
  (* requirement 3: every return to Idle from OpenSent, OpenConfirm or Established closes the connection *)
  sp_down_closes : in_session (a_st a) = true -> is_down (a_st b) = true ->
                   In Closed os /\ a_open b = false;
  (* the speaker does not crash *)
  sp_no_crash : existsb is_crash os = false
}.

(* behaviours of the abstract machine: sequences of labelled transitions *)
Inductive spec_trace : astate -> list (list out) -> astate -> Prop :=
| st_nil : forall a, spec_trace a [] a
| st_cons : forall a os b oss c, spec_step a os b -> spec_trace b oss c -> spec_trace a (os :: oss) c.

Definition abs (s : sess) : astate :=
  {| a_st := s_st s; a_att := s_att s;
     a_open := match s_conn s with ConnOpen _ => true | _ => false end |}.
