(* C15 specification: prefix / address arithmetic defined on the address BITS.
   bits w a = the w low bits of a, most significant first.  Nothing here mentions masks,
   shifts or words wider than a bit. *)
From Coq Require Import ZArith Bool List.
From BioVerif Require Import Lib.Word Model.NetArith.
Import ListNotations.
Open Scope Z_scope.

Fixpoint bits (w : nat) (a : Z) : list bool :=
  match w with
  | O => []
  | S w' => Z.testbit a (Z.of_nat w') :: bits w' a
  end.

(* the 32 resp. 128 address bits, MSB first *)
Definition ip_bits (a : ip) : list bool :=
  if legacy a then bits 32 (lo a) else bits 64 (hi a) ++ bits 64 (lo a).

Definition width (a : ip) : Z := if legacy a then 32 else 128.

(* values every constructor of package net produces (IPv4, IPv4FromOctets, IPv6, IPv6FromBlocks,
   IPFromBytes, IPFromString): an IPv4 address lives in the low 32 bits *)
Definition wf_ip (a : ip) : Prop :=
  if legacy a then hi a = 0 /\ 0 <= lo a < 2 ^ 32
  else 0 <= hi a < 2 ^ 64 /\ 0 <= lo a < 2 ^ 64.

Definition wf_pfx (p : pfx) : Prop := wf_ip (addr p) /\ 0 <= plen p <= width (addr p).

Definition same_family (a b : ip) : Prop := legacy a = legacy b.

Definition pbits (p : pfx) : list bool := ip_bits (addr p).
Definition plen_nat (p : pfx) : nat := Z.to_nat (plen p).

(* the first k bits kept, the remaining ones zero *)
Definition keep_first (k : nat) (l : list bool) : list bool :=
  firstn k l ++ repeat false (length l - k).

(* STRICT containment: x is a proper sub-prefix of p *)
Definition contains_spec (p x : pfx) : Prop :=
  same_family (addr p) (addr x) /\ plen p < plen x /\
  firstn (plen_nat p) (pbits p) = firstn (plen_nat p) (pbits x).

Definition equal_spec (p x : pfx) : Prop :=
  same_family (addr p) (addr x) /\ plen p = plen x /\ pbits p = pbits x.

(* no host bit set *)
Definition valid_spec (p : pfx) : Prop :=
  skipn (plen_nat p) (pbits p) = repeat false (length (pbits p) - plen_nat p).

(* the address with the host bits cleared *)
Definition base_spec (p : pfx) : list bool := keep_first (plen_nat p) (pbits p).

(* positions count from 1 at the most significant bit; position 0 and positions past the
   last bit read as false *)
Definition bit_spec (a : ip) (pos : Z) : bool :=
  if pos <=? 0 then false else nth (Z.to_nat (pos - 1)) (ip_bits a) false.

(* lexicographic order on the bit strings *)
Fixpoint lex_cmp (l1 l2 : list bool) : comparison :=
  match l1, l2 with
  | [], [] => Eq
  | [], _ :: _ => Lt
  | _ :: _, [] => Gt
  | a :: r1, b :: r2 =>
    match a, b with
    | false, true => Lt
    | true, false => Gt
    | _, _ => lex_cmp r1 r2
    end
  end.
Definition cmp_int (c : comparison) : Z := match c with Lt => -1 | Eq => 0 | Gt => 1 end.
Definition compare_spec (a b : ip) : Z := cmp_int (lex_cmp (ip_bits a) (ip_bits b)).

(* length of the longest common prefix of two bit strings *)
Fixpoint lcp (l1 l2 : list bool) : nat :=
  match l1, l2 with
  | a :: r1, b :: r2 => if Bool.eqb a b then S (lcp r1 r2) else O
  | _, _ => O
  end.

(* common supernet of length k: the first k bits of p (= those of x), rest zero *)
Definition supernet_bits (k : nat) (p : pfx) : list bool := keep_first k (pbits p).

(* the last n bits cleared *)
Definition mask_last_spec (a : ip) (n : nat) : list bool :=
  keep_first (length (ip_bits a) - n) (ip_bits a).

(* number of bytes needed for pfxlen bits *)
Definition bytes_spec (pfxlen r : Z) : Prop := pfxlen <= 8 * r < pfxlen + 8.
