(* C13 specification vocabulary: a world of two sessions over one object store, as the harness builds it. *)
From Coq Require Import List NArith Bool.
Import ListNotations.
From BioVerif Require Import Model.PathIDs Model.AdjRIBOut Model.Heap.
Local Open Scope N_scope.

Section World.
  Variable P : Type.
  Variable apply : P -> N -> path -> option path.
  Variables sa sb : sess.

  Record world := mkWorld { w_heap : heap; w_a : haro P; w_b : haro P }.

  (* what can happen: the import side stores a new path object (deduplicated or not), or one of the two
     sessions performs an export-side operation - AddPath / RemovePath with any object of the store,
     ReplaceFilterChain (refresh) with any view *)
  Inductive wop :=
  | WNew (v : path) (shared : bool)
  | WA (o : hop P)
  | WB (o : hop P).

  Definition wstep (w : world) (o : wop) : world :=
    match o with
    | WNew v sh => mkWorld (fst (hnew (w_heap w) v sh)) (w_a w) (w_b w)
    | WA op => let (h, t) := hstep P apply sa (w_heap w, w_a w) op in mkWorld h t (w_b w)
    | WB op => let (h, t) := hstep P apply sb (w_heap w, w_b w) op in mkWorld h (w_a w) t
    end.

  Definition wrun (w : world) (ops : list wop) : world := fold_left wstep ops w.
End World.

Arguments w_heap {P}.
Arguments w_a {P}.
Arguments w_b {P}.
Arguments WNew {P}.
Arguments WA {P}.
Arguments WB {P}.

(* the pre-fix RefreshRoute: checkPropagateUpdate applied to the Loc-RIB's own object *)
Definition refresh_in_place (s : sess) (h : heap) (arg : N) : heap :=
  match read h arg with
  | Some (PBgp r b) => match rewrite s r b with Some b' => write_full h arg (PBgp r b') | None => h end
  | _ => h
  end.
