(* C20 specification: an UPDATE is applied NLRI by NLRI.  For the address family (afi, unicast) the
   message stands for this list of Adj-RIB-In operations, each NLRI with ITS OWN path identifier and
   all of them with the message's attributes:
     announce every NLRI of MP_REACH_NLRI (if it is for this family; next hop from the attribute),
     withdraw every NLRI of MP_UNREACH_NLRI (if for this family),
     and for IPv4: withdraw every withdrawn route, announce every NLRI.
   The message's attributes are defined by look-up (value of the last attribute of a kind), not by
   replaying the attribute list. *)
From Coq Require Import List NArith Bool.
Import ListNotations.
From BioVerif Require Import Model.AdjRIBIn Model.UpdateApply.
Open Scope N_scope.

Fixpoint last_some {A B} (f : A -> option B) (l : list A) : option B :=
  match l with
  | [] => None
  | a :: r => match last_some f r with Some b => Some b | None => f a end
  end.

Definition attr_value {B} (f : attr -> option B) (d : B) (l : list attr) : B :=
  match last_some f l with Some b => b | None => d end.

(* the path the message's attributes describe (identifier 0, to be set per NLRI) *)
Definition message_path (l : list attr) : path :=
  mkPath 0
    (attr_value (fun a => match a with ALocalPref _ v => Some v | _ => None end) 0 l)
    (attr_value (fun a => match a with AMed _ v => Some v | _ => None end) 0 l)
    (attr_value (fun a => match a with ANextHop _ v => Some v | _ => None end) 0 l)
    (attr_value (fun a => match a with AASPath _ v => Some v | _ => None end) [] l)
    (attr_value (fun a => match a with AOriginator _ v => Some v | _ => None end) 0 l)
    (attr_value (fun a => match a with AClusterList _ v => Some v | _ => None end) [] l)
    0 0.

Definition the_reach (l : list attr) : option mp_reach :=
  last_some (fun a => match a with AReach _ r => Some r | _ => None end) l.
Definition the_unreach (l : list attr) : option mp_unreach :=
  last_some (fun a => match a with AUnreach _ r => Some r | _ => None end) l.

Definition announce_each (base : path) (l : list nlri) : list op :=
  map (fun n => Announce (n_pfx n) (set_pid base (n_id n))) l.
Definition withdraw_each (l : list nlri) : list op := map (fun n => Withdraw (n_pfx n) (n_id n)) l.

Definition message_ops (afi : N) (u : update) : list op :=
  let base := message_path (u_attrs u) in
  (match the_reach (u_attrs u) with
   | Some r => if (afi =? mr_afi r) && (1 =? mr_safi r) then announce_each (set_nhop base (mr_nh r)) (mr_nlri r) else []
   | None => [] end) ++
  (match the_unreach (u_attrs u) with
   | Some w => if (afi =? mu_afi w) && (1 =? mu_safi w) then withdraw_each (mu_nlri w) else []
   | None => [] end) ++
  (if afi =? 1 then withdraw_each (u_withdrawn u) ++ announce_each base (u_nlri u) else []).

(* the decoder gives every attribute value the type the code expects *)
Definition well_typed (u : update) : Prop := forall a, In a (u_attrs u) -> attr_typed a = true.
