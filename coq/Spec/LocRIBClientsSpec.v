(* C04 specification: what a Loc-RIB client must hold.
   Independent of the model's propagation code: [want] is "the first paths of the current selection
   that the option admits"; [held] is the client's own bookkeeping of the callbacks it received
   (initial dump plus additions minus removals, counted from its latest registration). *)
From Coq Require Import List Arith Bool Permutation.
Import ListNotations.
From BioVerif Require Import Model.LocRIBClients.

(* how many paths an option admits when ecmpCount paths are equally good (best only / all
   equal-cost paths / up to N paths) *)
Definition limit (o : opts) (ecmpCount : nat) : nat :=
  if bestOnly o then 1 else if ecmpOnly o then ecmpCount else maxPaths o.

Section Spec.

Variable val : Type.
Notation entry := (entry val).

Definition want (o : opts) (r : route val) : list entry :=
  firstn (limit o (ecmp r)) (paths r).

(* removing a path the client does not hold is a protocol error of the RIB: None *)
Fixpoint take_out (o : oid) (l : list entry) : option (list entry) :=
  match l with
  | [] => None
  | x :: l' =>
    if fst x =? o then Some l'
    else match take_out o l' with
         | None => None
         | Some r => Some (x :: r)
         end
  end.

(* the callbacks that change what client c holds for prefix p *)
Definition for_me (c : cid) (p : pfx) (b : cb val) : bool :=
  match b with
  | CbAdd c' p' _ | CbRemove c' p' _ | CbDump c' p' _ => (c' =? c) && (p' =? p)
  | CbEndOfRIB _ | CbRefresh _ _ _ => false
  end.

Definition apply1 (h : option (list entry)) (b : cb val) : option (list entry) :=
  match h with
  | None => None
  | Some l =>
    match b with
    | CbAdd _ _ e | CbDump _ _ e => Some (e :: l)
    | CbRemove _ _ e => take_out (fst e) l
    | CbEndOfRIB _ | CbRefresh _ _ _ => Some l
    end
  end.

Definition deliver (c : cid) (p : pfx) (h : option (list entry)) (cbs : list (cb val))
  : option (list entry) :=
  fold_left apply1 (filter (for_me c p) cbs) h.

(* a (re-)registration starts a new account: the initial dump is the complete state *)
Definition held_step (c : cid) (p : pfx) (h : option (list entry)) (it : op val * list (cb val))
  : option (list entry) :=
  deliver c p
    (match fst it with
     | ORegister c' _ => if c' =? c then Some [] else h
     | _ => h
     end) (snd it).

Definition held (c : cid) (p : pfx) (tr : trace val) : option (list entry) :=
  fold_left (held_step c p) tr (Some []).

(* all that is assumed about Route.PathSelection: it reorders the stored paths and reports an
   ECMP count not exceeding their number *)
Definition sel_ok (sel : nat -> list entry -> list entry * nat) : Prop :=
  forall t l, Permutation (fst (sel t l)) l /\ snd (sel t l) <= length l.

Definition cb_cid (b : cb val) : cid :=
  match b with
  | CbAdd c _ _ | CbRemove c _ _ | CbDump c _ _ | CbEndOfRIB c | CbRefresh c _ _ => c
  end.

(* "b is the answer to an explicit RefreshClient(c) of a client that is not registered: an empty list" *)
Definition empty_refresh (c : cid) (it : op val * list (cb val)) (b : cb val) : Prop :=
  fst it = ORefresh c /\ exists p, b = CbRefresh c p [].

(* nothing in the callbacks of history item [it] is addressed to c, except such answers *)
Definition quiet_for (c : cid) (it : op val * list (cb val)) : Prop :=
  forall b, In b (snd it) -> cb_cid b = c -> empty_refresh c it b.

End Spec.

(* A concrete selection for the examples: paths are (local-pref, next-hop) pairs; higher local-pref
   wins, the ECMP set is the set of paths with the best local-pref. *)
Definition lp_of (e : oid * (nat * nat)) : nat := fst (snd e).

Fixpoint ins_desc (x : oid * (nat * nat)) (l : list (oid * (nat * nat))) :=
  match l with
  | [] => [x]
  | y :: l' => if lp_of y <? lp_of x then x :: l else y :: ins_desc x l'
  end.

Definition sort_desc (l : list (oid * (nat * nat))) := fold_right ins_desc [] l.

Fixpoint leading (k : nat) (l : list (oid * (nat * nat))) : nat :=
  match l with
  | [] => 0
  | y :: l' => if lp_of y =? k then S (leading k l') else 0
  end.

Definition ref_sel (_ : nat) (l : list (oid * (nat * nat))) : list (oid * (nat * nat)) * nat :=
  let s := sort_desc l in
  (s, match s with [] => 0 | x :: _ => leading (lp_of x) s end).

Definition pair_eqb (a b : nat * nat) : bool := (fst a =? fst b) && (snd a =? snd b).
