(* C29 specification: which (source, route) advertisements are current, with set semantics. *)
From Coq Require Import List NArith Bool.
Import ListNotations.
From BioVerif Require Import Model.Merged.

Definition adv := list (src * rid).

Definition adv_mem (s : src) (r : rid) (a : adv) : bool :=
  existsb (fun p => N.eqb (fst p) s && N.eqb (snd p) r) a.

Definition spec_step (a : adv) (o : op) : adv :=
  match o with
  | Add s r => if adv_mem s r a then a else (s, r) :: a
  | Remove s r => filter (fun p => negb (N.eqb (fst p) s && N.eqb (snd p) r)) a
  | Drop s => filter (fun p => negb (N.eqb (fst p) s)) a
  end.

Definition spec_run (ops : list op) : adv := fold_left spec_step ops [].

(* route r is advertised by at least one source *)
Definition advertised (a : adv) (r : rid) : Prop := exists s, In (s, r) a.
