(* C29 specification: which (source, route) advertisements are current, with set semantics. *)
From Coq Require Import List NArith Bool.
Import ListNotations.
From BioVerif Require Import Model.Merged.

Definition adv := list (src * rid).

Definition adv_mem (s : src) (r : rid) (a : adv) : bool :=
  existsb (fun p => N.eqb (fst p) s && N.eqb (snd p) r) a.

Definition spec_step (a : adv) (o : op) : adv :=
  match o with
  | Add s r => if adv_mem s r a then a else (s, r) :: a
  | Remove s r => filter (fun p => negb (N.eqb (fst p) s && N.eqb (snd p) r)) a
  | Drop s => filter (fun p => negb (N.eqb (fst p) s)) a
  end.

Definition spec_run (ops : list op) : adv := fold_left spec_step ops [].

(* route r is advertised by at least one source *)
Definition advertised (a : adv) (r : rid) : Prop := exists s, In (s, r) a.

(* ---- the same at the level of the RIS clients: which client currently has which route from its
   upstream (an ended stream forgets everything the client had learned) *)
Definition client_step (a : adv) (e : event) : adv :=
  match e with
  | Adv c r => if adv_mem c r a then a else (c, r) :: a
  | Wd c r => filter (fun p => negb (N.eqb (fst p) c && N.eqb (snd p) r)) a
  | StreamEnd c => filter (fun p => negb (N.eqb (fst p) c)) a
  end.
Definition client_run (evs : list event) : adv := fold_left client_step evs [].

(* an operation that can concern route r: everything except Add/Remove of another route *)
Definition about (r : rid) (o : op) : bool :=
  match o with
  | Add _ r' => N.eqb r' r
  | Remove _ r' => N.eqb r' r
  | Drop _ => true
  end.
