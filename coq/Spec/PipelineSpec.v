(* Pipeline specification: the end-to-end statements about Model/Pipeline.v, in the vocabulary of the
   component specifications (Spec/AdjRIBInSpec.v: spec_run / contribution, Spec/LocRIBClientsSpec.v: sel_ok /
   want, Spec/ExportViewSpec.v: export_view / guards, Spec/UpdateSenderSpec.v: adj_rib_out and the C10 guards). *)
From Coq Require Import List NArith ZArith Bool Arith Permutation.
Import ListNotations.
From BioVerif Require Model.PathIDs Model.AdjRIBIn Model.LocRIBClients Model.AdjRIBOut Model.UpdateSender
  Model.LocView Spec.AdjRIBInSpec Spec.LocRIBClientsSpec Spec.ExportViewSpec Spec.UpdateSenderSpec.
From BioVerif Require Import Model.Pipeline.

(* a route.Path value up to what Path.Compare ignores: OnlyToCustomer, ASPathLen (a function of the AS_PATH on
   every path the pipeline creates), RedistributedFrom (0 on every path learned via BGP) *)
Definition ckey (p : AdjRIBOut.path) : AdjRIBOut.path :=
  match p with
  | AdjRIBOut.PBgp _ b =>
    AdjRIBOut.PBgp 0 (AdjRIBOut.set_otc 0 (AdjRIBOut.set_aspath (AdjRIBOut.b_aspath b) 0 b))
  | _ => p
  end.

Definition src_of (p : AdjRIBOut.path) : option N :=
  match p with AdjRIBOut.PBgp _ b => Some (AdjRIBOut.b_src b) | _ => None end.

Section Spec.
  Variable P : Type.

  (* the configuration is sane: no two sessions with the same peer address (bio-rd keys its peers by address) *)
  Definition distinct_peers (cfgs : list (scfg P)) : Prop := NoDup (map (sc_ip P) cfgs).

  (* what session c (receiving half) currently contributes to prefix p, given the calls ops made on its
     Adj-RIB-In since it came up: the C05 contribution - eligible when received, current, rewritten by the import
     policy - as route.Path values *)
  Definition contribution_at (c : scfg P) (ops : list AdjRIBIn.op) (p : N) : list AdjRIBOut.path :=
    map (lift_of P c)
        (AdjRIBIn.at_pfx p (AdjRIBInSpec.contribution (sc_pol P c)
                               (AdjRIBInSpec.s_anns (AdjRIBInSpec.spec_run (sc_sa P c) ops)))).

  (* the union over the sessions that are up *)
  Definition union_of_contributions (cfgs : list (scfg P)) (st : pst P) (p : N) : list AdjRIBOut.path :=
    flat_map (fun cs : scfg P * sst P =>
                if ss_up P (snd cs) then contribution_at (fst cs) (ss_ops P (snd cs)) p else [])
             (combine cfgs (ps_sess P st)).

  (* the assumption C08 records: the Loc-RIB never held two indistinguishable path objects for one prefix *)
  Definition locrib_paths_distinct (st : pst P) : Prop := Forall (@NoDup AdjRIBOut.path) (ps_seen P st).

  (* the calls the Adj-RIB-Out made on its client (the update sender), oldest first, as the sender's labels *)
  Variable tagf : AdjRIBOut.bgp -> N.
  Definition client_calls (a : AdjRIBOut.aro P) : list UpdateSender.label :=
    map (lab_of tagf) (rev (AdjRIBOut.elog a)).

  Definition is_route_label (l : UpdateSender.label) : bool :=
    match l with UpdateSender.Add _ _ | UpdateSender.Remove _ _ => true | _ => false end.

  (* the Adj-RIB-Out table read by (prefix, wire path id): the attributes (hash tag) of the entry stored there *)
  Definition keyed_table (c : UpdateSender.cfg) (a : AdjRIBOut.aro P) (p : N) (pid : N) : option N :=
    match find (fun q => N.eqb (UpdateSender.wpid c (enc tagf q)) pid) (rev (AdjRIBOut.tbl_get p (AdjRIBOut.tbl a))) with
    | Some q => Some (UpdateSender.p_tag (enc tagf q))
    | None => None
    end.

  (* interface condition between C08 and C10 that neither component theorem supplies: what the Adj-RIB-Out told
     its client amounts to its table (false exactly in the situations of the known findings: a withdrawal that
     found nothing to remove, or removed one of two copies) *)
  Definition log_tracks_table (c : UpdateSender.cfg) (a : AdjRIBOut.aro P) : Prop :=
    forall p pid, UpdateSenderSpec.adj_rib_out c (client_calls a) (upfx p) pid = keyed_table c a p pid.
End Spec.

(* ------------------------------------------------------------------ a concrete instance for the examples *)
(* a selection: highest LOCAL_PREF first (stable), ECMP count 1 *)
Definition lp_of (p : AdjRIBOut.path) : N :=
  match p with AdjRIBOut.PBgp _ b => AdjRIBOut.b_lp b | _ => 0%N end.

Fixpoint ins_lp (e : nat * AdjRIBOut.path) (l : list (nat * AdjRIBOut.path)) : list (nat * AdjRIBOut.path) :=
  match l with
  | [] => [e]
  | x :: r => if N.ltb (lp_of (snd x)) (lp_of (snd e)) then e :: l else x :: ins_lp e r
  end.

Definition ex_sel (_ : nat) (l : list (nat * AdjRIBOut.path)) : list (nat * AdjRIBOut.path) * nat :=
  (fold_right ins_lp [] l, Nat.min 1 (length l)).

(* a hash for the examples: next hop, LOCAL_PREF and Source tell the paths of the examples apart *)
Definition ex_tagf (b : AdjRIBOut.bgp) : N :=
  (AdjRIBOut.b_nh b + 1000 * AdjRIBOut.b_lp b + 1000000 * AdjRIBOut.b_src b)%N.

(* three sessions: two route-server clients that announce (the second one's import policy sets LOCAL_PREF 300),
   one iBGP peer that listens; best path only, export policy accept-all *)
Definition ex_sa (ibgp : bool) (asn : N) : AdjRIBIn.sattrs := AdjRIBIn.mkSA ibgp false 16843009%N asn 100%N false false 0%N.
Definition ex_sess (ibgp rs : bool) (ip : N) : AdjRIBOut.sess :=
  AdjRIBOut.mkSess ibgp rs false false 65000%N 16843009%N ip 9%N false 0%N.
Definition ex_scfg (ibgp rs : bool) (asn ip : N) (pol : AdjRIBIn.policy) : scfg AdjRIBOut.chain :=
  mkScfg AdjRIBOut.chain (ex_sa ibgp asn) pol ip (ip + 100)%N 65000%N None (ex_sess ibgp rs ip)
         (LocRIBClients.mkOpts true false 0) [] (UpdateSender.mkcfg UpdateSender.V4 false true ibgp false).

Definition ex_cfgs : list (scfg AdjRIBOut.chain) :=
  [ex_scfg false true 65101%N 167772161%N (AdjRIBIn.sample_policy 0 0);
   ex_scfg false true 65102%N 167772162%N (AdjRIBIn.sample_policy 3 300);
   ex_scfg true false 65000%N 167772163%N (AdjRIBIn.sample_policy 0 0)].

Definition ex_path (nh asn : N) : AdjRIBIn.path := AdjRIBIn.mkPath 0 0 0 nh [asn] 0 [] 0 0.

(* all come up; both clients announce prefix 1; the listener's sender is drained *)
Definition ex_evs1 : list event :=
  [EUp 0; EUp 1; EUp 2; EAnnounce 0 1%N (ex_path 201326593 65101); EAnnounce 1 1%N (ex_path 201326594 65102)].
Definition ex_key (nh lp src : N) : UpdateSender.key := ((nh + 1000 * lp + 1000000 * src)%N, 0%N).
Definition ex_drain2a : list event := [EDequeue 2 (ex_key 201326594 300 167772162); EEmit 2].
(* the second client goes down; the listener's sender is drained again *)
Definition ex_drain2b : list event := [EDequeue 2 (ex_key 201326593 100 167772161); EEmit 2].

Definition ex_run (evs : list event) : pst AdjRIBOut.chain :=
  run AdjRIBOut.chain AdjRIBOut.interp ex_sel ex_tagf ex_cfgs evs.

Definition ex_sess_at (st : pst AdjRIBOut.chain) (k : nat) : sst AdjRIBOut.chain :=
  nth k (ps_sess AdjRIBOut.chain st) (dead_sst AdjRIBOut.chain (ex_scfg true false 0 0 (fun _ _ => None))).

(* ------------------------------------------------------------------ the witness of the known finding
   addpath-duplicate-export-withdrawn-while-copy-remains: peer 0 (add-path receive) sends two paths that differ in
   NEXT_HOP only, the import policy sets the next hop; session 1 (add-path send) exports both as ONE announcement
   (one path id); peer 0 withdraws the first *)
Definition dup_cfgs : list (scfg AdjRIBOut.chain) :=
  [mkScfg AdjRIBOut.chain (AdjRIBIn.mkSA false true 16843009%N 65101%N 100%N false false 0%N)
          (AdjRIBIn.sample_policy 6 218103809) 167772161%N 167772261%N 65000%N None
          (ex_sess false true 167772161%N) (LocRIBClients.mkOpts true false 0) []
          (UpdateSender.mkcfg UpdateSender.V4 false true false false);
   mkScfg AdjRIBOut.chain (ex_sa false 65102) (AdjRIBIn.sample_policy 0 0) 167772162%N 167772262%N 65000%N None
          (AdjRIBOut.mkSess false true false true 65000%N 16843009%N 167772162%N 9%N false 0%N)
          (LocRIBClients.mkOpts false false 2) [] (UpdateSender.mkcfg UpdateSender.V4 true true false false)].
Definition dup_path (id nh : N) : AdjRIBIn.path := AdjRIBIn.mkPath id 200 0 nh [65101%N] 0 [] 0 0.
Definition dup_evs : list event :=
  [EUp 0; EUp 1; EAnnounce 0 0%N (dup_path 0 201326594); EAnnounce 0 0%N (dup_path 2 201326593);
   EDequeue 1 ((218103809 + 1000 * 200 + 1000000 * 167772161)%N, 1%N); EEmit 1; EWithdraw 0 0%N 0%N].
Definition dup_state : pst AdjRIBOut.chain := run AdjRIBOut.chain AdjRIBOut.interp ex_sel ex_tagf dup_cfgs dup_evs.

Definition ex_tagf_of (nh lp src : N) : N := (nh + 1000 * lp + 1000000 * src)%N.
