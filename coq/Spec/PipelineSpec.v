(* Pipeline specification: the end-to-end statements about Model/Pipeline.v, in the vocabulary of the
   component specifications (Spec/AdjRIBInSpec.v: spec_run / contribution, Spec/LocRIBClientsSpec.v: sel_ok /
   want, Spec/ExportViewSpec.v: export_view / guards, Spec/UpdateSenderSpec.v: adj_rib_out and the C10 guards). *)
From Coq Require Import List NArith ZArith Bool Arith Permutation.
Import ListNotations.
From BioVerif Require Model.PathIDs Model.AdjRIBIn Model.LocRIBClients Model.AdjRIBOut Model.UpdateSender
  Model.LocView Spec.AdjRIBInSpec Spec.LocRIBClientsSpec Spec.ExportViewSpec Spec.UpdateSenderSpec.
From BioVerif Require Import Model.Pipeline.

(* a route.Path value up to what Path.Compare ignores: OnlyToCustomer, ASPathLen (a function of the AS_PATH on
   every path the pipeline creates), RedistributedFrom (0 on every path learned via BGP) *)
Definition ckey (p : AdjRIBOut.path) : AdjRIBOut.path :=
  match p with
  | AdjRIBOut.PBgp _ b =>
    AdjRIBOut.PBgp 0 (AdjRIBOut.set_otc 0 (AdjRIBOut.set_aspath (AdjRIBOut.b_aspath b) 0 b))
  | _ => p
  end.

Definition src_of (p : AdjRIBOut.path) : option N :=
  match p with AdjRIBOut.PBgp _ b => Some (AdjRIBOut.b_src b) | _ => None end.

Section Spec.
  Variable P : Type.

  (* the configuration is sane: no two sessions with the same peer address (bio-rd keys its peers by address) *)
  Definition distinct_peers (cfgs : list (scfg P)) : Prop := NoDup (map (sc_ip P) cfgs).

  (* what session c (receiving half) currently contributes to prefix p, given the calls ops made on its
     Adj-RIB-In since it came up: the C05 contribution - eligible when received, current, rewritten by the import
     policy - as route.Path values *)
  Definition contribution_at (c : scfg P) (ops : list AdjRIBIn.op) (p : N) : list AdjRIBOut.path :=
    map (lift_of P c)
        (AdjRIBIn.at_pfx p (AdjRIBInSpec.contribution (sc_pol P c)
                               (AdjRIBInSpec.s_anns (AdjRIBInSpec.spec_run (sc_sa P c) ops)))).

  (* the union over the sessions that are up *)
  Definition union_of_contributions (cfgs : list (scfg P)) (st : pst P) (p : N) : list AdjRIBOut.path :=
    flat_map (fun cs : scfg P * sst P =>
                if ss_up P (snd cs) then contribution_at (fst cs) (ss_ops P (snd cs)) p else [])
             (combine cfgs (ps_sess P st)).

  (* the assumption C08 records: the Loc-RIB never held two indistinguishable path objects for one prefix *)
  Definition locrib_paths_distinct (st : pst P) : Prop := Forall (@NoDup AdjRIBOut.path) (ps_seen P st).

  (* the calls the Adj-RIB-Out made on its client (the update sender), oldest first, as the sender's labels *)
  Variable tagf : AdjRIBOut.bgp -> N.
  Definition client_calls (a : AdjRIBOut.aro P) : list UpdateSender.label :=
    map (lab_of tagf) (rev (AdjRIBOut.elog a)).

  Definition is_route_label (l : UpdateSender.label) : bool :=
    match l with UpdateSender.Add _ _ | UpdateSender.Remove _ _ => true | _ => false end.

  (* the Adj-RIB-Out table read by (prefix, wire path id): the attributes (hash tag) of the entry stored there *)
  Definition keyed_table (c : UpdateSender.cfg) (a : AdjRIBOut.aro P) (p : N) (pid : N) : option N :=
    match find (fun q => N.eqb (UpdateSender.wpid c (enc tagf q)) pid) (rev (AdjRIBOut.tbl_get p (AdjRIBOut.tbl a))) with
    | Some q => Some (UpdateSender.p_tag (enc tagf q))
    | None => None
    end.

  (* interface condition between C08 and C10 that neither component theorem supplies: what the Adj-RIB-Out told
     its client amounts to its table (false exactly in the situations of the known findings: a withdrawal that
     found nothing to remove, or removed one of two copies) *)
  Definition log_tracks_table (c : UpdateSender.cfg) (a : AdjRIBOut.aro P) : Prop :=
    forall p pid, UpdateSenderSpec.adj_rib_out c (client_calls a) (upfx p) pid = keyed_table c a p pid.
End Spec.
