(* C11 specification vocabulary: when two BGP paths are "the same announcement", and how many path
   identifiers a table has in use. *)
From Coq Require Import List NArith Bool.
Import ListNotations.
From BioVerif Require Import Model.PathIDs Model.AdjRIBOut.

(* Two paths are the same announcement when they agree on every attribute a peer can see, the path
   identifier aside: next hop, source, LOCAL_PREF, MED, BGP identifier, ORIGINATOR_ID, AGGREGATOR,
   eBGP/iBGP, ATOMIC_AGGREGATE, ORIGIN, OTC, AS_PATH, CLUSTER_LIST, communities, large communities and
   unknown attributes - where an absent list and an empty list are the same (neither is sent), and the
   AS_PATH is read as its sequence of ASNs and AS_SETs (consecutive AS_SEQUENCE segments concatenated).
   ASPathLen and RedistributedFrom are bookkeeping, not attributes. *)
Definition same_announcement (a b : bgp) : Prop :=
  b_nh a = b_nh b /\ b_src a = b_src b /\ b_lp a = b_lp b /\ b_med a = b_med b /\
  b_bgpid a = b_bgpid b /\ b_oid a = b_oid b /\ b_agg a = b_agg b /\ b_ebgp a = b_ebgp b /\
  b_atomic a = b_atomic b /\ b_origin a = b_origin b /\ b_otc a = b_otc b /\
  as_tokens (b_aspath a) = as_tokens (b_aspath b) /\
  olist (b_cl a) = olist (b_cl b) /\ olist (b_comms a) = olist (b_comms b) /\
  olist (b_lcomms a) = olist (b_lcomms b) /\ b_unk a = b_unk b.

(* the distinct announcements stored in a table, over all prefixes: each needs one identifier *)
Definition keys_of (t : list (N * path)) : list hkey :=
  flat_map (fun e => match path_hkey (snd e) with Some k => [k] | None => [] end) t.

Definition ids_in_use (t : list (N * path)) : nat := length (nodup hkey_eq_dec (keys_of t)).
