(* C12 specification (export side): replacing the export policy turns the export view under the old
   policy into the export view under the new one. *)
From Coq Require Import List NArith Bool Permutation.
Import ListNotations.
From BioVerif Require Import Model.PathIDs Model.AdjRIBOut Model.LocView Spec.ExportViewSpec.
Local Open Scope N_scope.

(* the two images a Loc-RIB path can have in the table while a replacement is under way *)
Definition images (fc fn : N -> path -> option path) (s : sess) (pfx : N) (p : path) : list path :=
  opt_list (export_with fc s pfx p) ++ opt_list (export_with fn s pfx p).

(* Guards on the view the Loc-RIB hands to RefreshRoute and on the two policies. *)
Record rguards (fc fn : N -> path -> option path) (s : sess) (v : view) : Prop := mkRGuards {
  (* the Loc-RIB lists every prefix once, without duplicate paths; one path for a best-only session *)
  r_pfx_nodup : NoDup (map fst v);
  r_nodup : forall pfx l, In (pfx, l) v -> NoDup l;
  r_best : s_addpath s = false -> forall pfx l, In (pfx, l) v -> (length l <= 1)%nat;
  (* add-path sessions: old and new exports of different Loc-RIB paths of a prefix are Compare-distinct
     (known finding addpath-withdraw-hits-compare-equal-sibling, C08 K3) *)
  r_apart : s_addpath s = true ->
            forall pfx l p1 p2 q1 q2, In (pfx, l) v -> In p1 l -> In p2 l ->
            In q1 (images fc fn s pfx p1) -> In q2 (images fc fn s pfx p2) ->
            path_compare (strip q1) (strip q2) = true -> p1 = p2;
  (* when Compare cannot tell the old and the new export of a path apart they are the same path
     (Compare ignores OTC and ASPathLen, which no filter action sets independently) *)
  r_faithful : forall pfx l p qc qn, In (pfx, l) v -> In p l ->
               export_with fc s pfx p = Some qc -> export_with fn s pfx p = Some qn ->
               path_compare qc qn = true -> qc = qn;
  (* typing of the abstract policies: BGP paths in, BGP paths out *)
  r_fbgp_c : forall pfx r b q, fc pfx (PBgp r b) = Some q -> exists r' b', q = PBgp r' b';
  r_fbgp_n : forall pfx r b q, fn pfx (PBgp r b) = Some q -> exists r' b', q = PBgp r' b'
}.
