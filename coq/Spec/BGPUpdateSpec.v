(* C19 specification: what has to hold of an UPDATE that the decoder accepted (and the session therefore
   applies to its Adj-RIB-In), in terms of the decoded structure u, the header length l and the bytes c
   that the decoder consumed (input = c ++ rest). *)
From Coq Require Import List NArith Bool.
Import ListNotations.
From BioVerif Require Import Model.BGPCodec Model.BGPInstall.
Local Open Scope N_scope.

Definition attr_hdr (a : attr) : N := if a_ext a then 4 else 3.       (* flags, type, 1- or 2-byte length *)
Definition attr_size (a : attr) : N := attr_hdr a + a_len a.           (* header + declared length *)
Definition attrs_size (l : list attr) : N := fold_right (fun a s => attr_size a + s) 0 l.

(* (a) the lengths add up and (b) every attribute occupies exactly its declared length:
   the consumed bytes split into header, withdrawn routes of exactly WithdrawnRoutesLen bytes, one chunk of
   exactly (3|4) + Length bytes per attribute, and NLRI that end exactly at the header length.
   `exact` says whether the attribute chunks also end exactly at TotalPathAttrLen. *)
Definition sections (exact : bool) (l : N) (u : update_msg) (c : list N) : Prop :=
  exists hdr wl cw tl chunks cn,
    c = hdr ++ wl ++ cw ++ tl ++ concat chunks ++ cn /\
    len hdr = 19 /\ len wl = 2 /\ len tl = 2 /\
    len cw = u_wlen u /\
    Forall2 (fun a ch => len ch = attr_size a) (u_attrs u) chunks /\
    u_tpal u <= len (concat chunks) /\
    (exact = true -> len (concat chunks) = u_tpal u) /\
    19 + 4 + u_wlen u + u_tpal u + len cn = l.

(* (c) prefix lengths fit the address family of the field they were decoded from *)
Definition nlri_ok (afi : N) (n : nlri) : Prop := p_len (n_pfx n) <= afiAddrLen afi * 8.
Definition val_ok (v : attrval) : Prop :=
  match v with
  | AVMPReach afi _ _ nl => Forall (nlri_ok afi) nl
  | AVMPUnreach afi _ nl => Forall (nlri_ok afi) nl
  | _ => True
  end.
Definition prefix_lengths_ok (u : update_msg) : Prop :=
  Forall (nlri_ok 1) (u_withdrawn u) /\ Forall (nlri_ok 1) (u_nlri u) /\
  Forall (fun a => val_ok (a_val a)) (u_attrs u).

(* (d) reachable NLRI come with ORIGIN, AS_PATH and a next hop (NEXT_HOP, or the one inside MP_REACH_NLRI) *)
Definition mandatory_ok (u : update_msg) : Prop :=
  (u_nlri u <> [] ->
     hasAttr 1 (u_attrs u) = true /\ hasAttr 2 (u_attrs u) = true /\ hasAttr 3 (u_attrs u) = true) /\
  (hasAttr 14 (u_attrs u) = true ->
     hasAttr 1 (u_attrs u) = true /\ hasAttr 2 (u_attrs u) = true).

Definition wellformed (exact : bool) (l : N) (u : update_msg) (c : list N) : Prop :=
  sections exact l u c /\ prefix_lengths_ok u /\ mandatory_ok u.

(* the guard that excludes the known defect: the attributes' declared sizes sum up to TotalPathAttrLen *)
Definition attrs_fill_tpal (u : update_msg) : Prop := attrs_size (u_attrs u) = u_tpal u.
