(* C14 specification: the documented semantics of a policy chain as a reference interpreter.

   * A prefix is (family, length, address bits).  [bit a k] is the k-th address bit counted
     from the most significant one.  A pattern agrees with a prefix when both are of the same
     family and the first (pattern length) bits are equal.
       exact    : agree, same length            orlonger : agree, prefix at least as long
       longer   : agree, prefix strictly longer range    : orlonger and min <= length <= max
   * A part of a condition (prefix lists, route filters, community filters, large community
     filters, protocols) that is empty holds; a non-empty part holds when ANY of its members
     matches.  A condition matches when ALL of its parts hold.  A term applies when it has no
     condition or ANY of its conditions matches.
   * The actions of an applying term run in order; filters and their terms are evaluated in
     order; the first accept or reject ends the evaluation; the chain accepts when nothing
     terminates.  Rewriting actions only touch BGP attributes of BGP paths (next hop: also the
     static next hop).
   The interpreter works on path VALUES; it has no store and no panics. *)
From Coq Require Import List NArith Bool.
Import ListNotations.
From BioVerif Require Import Model.Policy.
Local Open Scope N_scope.

(* ------------------------------------------------------------------ prefixes on bits *)

Definition width (a : ip) : N := if ip_v4 a then 32 else 128.

Definition bit (a : ip) (k : N) : bool :=
  if ip_v4 a then (k <? 32) && N.testbit (ip_lo a) (31 - k)
  else if k <? 64 then N.testbit (ip_hi a) (63 - k)
  else (k <? 128) && N.testbit (ip_lo a) (127 - k).

Definition upto (n : N) : list N := map N.of_nat (seq 0 (N.to_nat n)).

Definition agree (n : N) (a b : ip) : bool :=
  Bool.eqb (ip_v4 a) (ip_v4 b) && forallb (fun k => Bool.eqb (bit a k) (bit b k)) (upto n).

Definition m_ref (m : matcher) (pat p : prefix) : bool :=
  agree (pf_len pat) (pf_addr pat) (pf_addr p) &&
  match m with
  | MExact => pf_len p =? pf_len pat
  | MOrLonger => pf_len pat <=? pf_len p
  | MLonger => pf_len pat <? pf_len p
  | MRange mn mx => (pf_len pat <=? pf_len p) && (mn <=? pf_len p) && (pf_len p <=? mx)
  end.

(* ------------------------------------------------------------------ conditions *)

Definition part {A : Type} (f : A -> bool) (l : list A) : bool :=
  match l with [] => true | _ => existsb f l end.

Definition comms_of (a : path) : list N :=
  match pa_bgp a with Some b => match b_comms b with Some l => l | None => [] end | None => [] end.
Definition lcomms_of (a : path) : list lcomm :=
  match pa_bgp a with Some b => match b_lcomms b with Some l => l | None => [] end | None => [] end.

Definition cond_ref (env : penv) (c : cond) (p : prefix) (a : path) : bool :=
  part (fun l => existsb (fun q => m_ref (pl_m l) q p) (pl_allowed l)) (c_pls c) &&
  part (fun f => m_ref (rf_m f) (env (rf_pat f)) p) (c_rfs c) &&
  part (fun c => existsb (N.eqb c) (comms_of a)) (c_cfs c) &&
  part (fun c => existsb (lcomm_eqb c) (lcomms_of a)) (c_lcfs c) &&
  part (N.eqb (pa_type a)) (c_protos c).

(* ------------------------------------------------------------------ actions *)

Inductive verdict := Continue | Accepted | Rejected.

Definition on_bgp (f : bgppath -> bgppath) (a : path) : path :=
  match pa_bgp a with
  | Some b => mkP (pa_type a) (Some (f b)) (pa_static a)
  | None => a
  end.

Definition on_attrs (f : bgpa -> bgpa) (b : bgppath) : bgppath :=
  match b_a b with
  | Some x => mkB (Some (f x)) (b_aspath b) (b_aspathlen b) (b_comms b) (b_lcomms b)
  | None => b
  end.

(* one ASN in front of an AS path: into the leading segment unless that is an AS_SET or full *)
Definition push_asn (asn : N) (l : list seg) : list seg :=
  match l with
  | (ty, asns) :: r =>
    if (ty =? ASSet) || (N.of_nat (length asns) =? 255) then (ASSequence, [asn]) :: l
    else (ty, asn :: asns) :: r
  | [] => [(ASSequence, [asn])]
  end.

Definition seg_len (s : seg) : N := if fst s =? ASSet then 1 else N.of_nat (length (snd s)).
Definition path_len (l : list seg) : N := fold_right (fun s acc => seg_len s + acc) 0 l mod 65536.

Definition prepend_ref (asn times : N) (b : bgppath) : bgppath :=
  if times =? 0 then b else
  let l := Nat.iter (N.to_nat times) (push_asn asn) (match b_aspath b with Some l => l | None => [] end) in
  mkB (b_a b) (Some l) (path_len l) (b_comms b) (b_lcomms b).

Definition next_hop_ref (nh : ip) (a : path) : path :=
  if pa_type a =? BGPPathType then on_bgp (on_attrs (fun x => mkA (a_lp x) (a_med x) (Some nh))) a
  else if pa_type a =? StaticPathType then
    match pa_static a with Some _ => mkP (pa_type a) (pa_bgp a) (Some (Some nh)) | None => a end
  else a.

Definition act_ref (x : action) (a : path) : path * verdict :=
  match x with
  | AAccept => (a, Accepted)
  | AReject => (a, Rejected)
  | ASetLocalPref v => (on_bgp (on_attrs (fun x => mkA v (a_med x) (a_nh x))) a, Continue)
  | ASetMED v => (on_bgp (on_attrs (fun x => mkA (a_lp x) v (a_nh x))) a, Continue)
  | ASetNextHop nh => (next_hop_ref nh a, Continue)
  | APrepend asn times => (on_bgp (prepend_ref asn times) a, Continue)
  end.

(* ------------------------------------------------------------------ evaluation *)

(* run the steps in order until one of them terminates *)
Fixpoint seq_ref {X : Type} (step : X -> path -> path * verdict) (l : list X) (a : path) : path * verdict :=
  match l with
  | [] => (a, Continue)
  | x :: l' =>
    let (a', v) := step x a in
    match v with Continue => seq_ref step l' a' | _ => (a', v) end
  end.

Definition term_ref (env : penv) (p : prefix) (t : term) (a : path) : path * verdict :=
  if part (fun c => cond_ref env c p a) (t_from t) then seq_ref act_ref (t_then t) a else (a, Continue).

Definition filter_ref (env : penv) (p : prefix) (f : filter) (a : path) : path * verdict :=
  seq_ref (term_ref env p) f a.

(* rewritten path, rejected? *)
Definition chain_ref (env : penv) (c : chain) (p : prefix) (a : path) : path * bool :=
  let (a', v) := seq_ref (filter_ref env p) c a in
  (a', match v with Rejected => true | _ => false end).

(* ------------------------------------------------------------------ well-formed inputs *)

(* machine words in range; a legacy address lives in the low 32 bits *)
Definition ip_wfb (a : ip) : bool :=
  if ip_v4 a then (ip_hi a =? 0) && (ip_lo a <? two32) else (ip_hi a <? two64) && (ip_lo a <? two64).

(* no host bit set (net.Prefix.Valid) *)
Definition canonical (p : prefix) : bool :=
  forallb (fun k => (k <? pf_len p) || negb (bit (pf_addr p) k)) (upto (width (pf_addr p))).

Definition prefix_wfb (p : prefix) : bool :=
  ip_wfb (pf_addr p) && (pf_len p <=? width (pf_addr p)) && canonical p.

Definition cond_wfb (env : penv) (c : cond) : bool :=
  forallb (fun l => forallb prefix_wfb (pl_allowed l)) (c_pls c) &&
  forallb (fun f => prefix_wfb (env (rf_pat f))) (c_rfs c).

Definition chain_wfb (env : penv) (c : chain) : bool :=
  forallb (fun f => forallb (fun t => forallb (cond_wfb env) (t_from t)) f) c.

(* every constructor of a BGP path sets BGPPathA *)
Definition path_wfb (a : path) : bool :=
  match pa_bgp a with
  | Some b => match b_a b with Some _ => true | None => false end
  | None => true
  end.
