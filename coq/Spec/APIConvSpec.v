(* C34 specification: which routes the property speaks about and what "preserved" means. *)
From Coq Require Import List NArith Bool.
Import ListNotations.
From BioVerif Require Import Model.APIConv.
Open Scope N_scope.

(* ---- the routes the API is fed with: the prefix is there, every path is a static or a BGP path
   whose own part is there with its addresses; uint8 fields hold uint8 values; AS path segments
   are sets or sequences (the API has one bool for the segment type) *)
Definition wf_segment (s : segment) : Prop := seg_type s = ASSet \/ seg_type s = ASSequence.

Definition wf_bgp (b : bgp_path) : Prop :=
  exists a nh src, b_a b = Some a /\ a_nexthop a = Some nh /\ a_source a = Some src /\
    a_origin a < 256 /\
    Forall wf_segment (olist (b_aspath b)) /\
    Forall (fun u => ua_code u < 256) (b_unknown b).

Definition static_ok (s : option static_path) : Prop :=
  match s with Some x => s_nexthop x <> None | None => True end.

Definition wf_path (p : path) : Prop :=
  p_hidden p < 256 /\ static_ok (p_static p) /\
  ((p_type p = StaticPathType /\ p_static p <> None) \/
   (p_type p = BGPPathType /\ exists b, p_bgp p = Some b /\ wf_bgp b)).

Definition wf_route (r : route) : Prop :=
  exists pf, r_pfx r = Some pf /\ pfx_len pf < 256 /\ Forall wf_path (r_paths r).

(* ---- the attributes the API schema has a field for, read off a BGP path
   (a nil list and an empty list are the same attribute value) *)
Definition bgp_nexthop (b : bgp_path) : option ip := match b_a b with Some a => a_nexthop a | None => None end.
Definition bgp_source (b : bgp_path) : option ip := match b_a b with Some a => a_source a | None => None end.
Definition bgp_localpref (b : bgp_path) : N := match b_a b with Some a => a_localpref a | None => 0 end.
Definition bgp_origin (b : bgp_path) : N := match b_a b with Some a => a_origin a | None => 0 end.
Definition bgp_med (b : bgp_path) : N := match b_a b with Some a => a_med a | None => 0 end.
Definition bgp_ebgp (b : bgp_path) : bool := match b_a b with Some a => a_ebgp a | None => false end.
Definition bgp_bgpid (b : bgp_path) : N := match b_a b with Some a => a_bgpid a | None => 0 end.
Definition bgp_origid (b : bgp_path) : N := match b_a b with Some a => a_origid a | None => 0 end.
Definition bgp_otc (b : bgp_path) : N := match b_a b with Some a => a_otc a | None => 0 end.

Record bgp_agree (b b' : bgp_path) : Prop := {
  ag_nexthop : bgp_nexthop b' = bgp_nexthop b;
  ag_localpref : bgp_localpref b' = bgp_localpref b;
  ag_aspath : olist (b_aspath b') = olist (b_aspath b);
  ag_origin : bgp_origin b' = bgp_origin b;
  ag_med : bgp_med b' = bgp_med b;
  ag_ebgp : bgp_ebgp b' = bgp_ebgp b;
  ag_bgpid : bgp_bgpid b' = bgp_bgpid b;
  ag_source : bgp_source b' = bgp_source b;
  ag_comms : olist (b_comms b') = olist (b_comms b);
  ag_lcomms : olist (b_lcomms b') = olist (b_lcomms b);
  ag_origid : bgp_origid b' = bgp_origid b;
  ag_cluster : olist (b_cluster b') = olist (b_cluster b);
  ag_unknown : b_unknown b' = b_unknown b;
  ag_pathid : b_pathid b' = b_pathid b;
  ag_postpolicy : b_postpolicy b' = b_postpolicy b;
  ag_otc : bgp_otc b' = bgp_otc b
}.

Definition static_nexthop (p : path) : option ip :=
  match p_static p with Some s => s_nexthop s | None => None end.

(* p' (after the round trip) agrees with p (before) *)
Definition path_agree (p p' : path) : Prop :=
  p_type p' = p_type p /\
  (p_type p = StaticPathType -> static_nexthop p' = static_nexthop p) /\
  (p_type p = BGPPathType -> exists b b', p_bgp p = Some b /\ p_bgp p' = Some b' /\ bgp_agree b b').

Definition hidden (p : path) : Prop := p_hidden p <> 0.
Definition api_hidden (ap : api_path) : Prop := ap_hidden ap <> 0.

(* the hidden reasons the API enum has a name for (HiddenReasonNone .. HiddenReasonOTCMismatch) *)
Definition reason_named (p : path) : Prop := p_hidden p <= 6.

(* ---- histories: a state of the process in which every address stored in the attribute cache has
   been allocated (true of the initial state and kept by every conversion; it also covers entries
   made by other users of the cache, whose blocks live at already allocated addresses) *)
Definition heap_ok (h : heap) : Prop :=
  forall k v, In (k, v) (h_cache h) -> ck_nh k < h_next h.
