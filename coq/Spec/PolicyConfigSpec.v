(* C14, configuration front end: the documented meaning of a list of policy statements applied
   as an import / export policy, directly on the configuration (no chain AST in between):
   the policies named by the neighbor (or, if it names none, by its group) are evaluated in
   order; in a policy statement the terms are evaluated in order; a term applies when it has no
   route filter or ANY of its route filters matches the prefix (bit-level matchers of
   Spec/PolicyRef.v); an applying term with `reject` rejects at once, otherwise sets local-pref,
   MED, prepends, sets the next hop (in that order, each only if configured) and then accepts if
   `accept` is set, else evaluation continues with the next term; nothing terminated = accepted. *)
From Coq Require Import List NArith Bool.
Import ListNotations.
From BioVerif Require Import Model.Policy Model.PolicyConfig Spec.PolicyRef.
Local Open Scope N_scope.

Definition crf_ref (env : penv) (p : prefix) (f : cfg_rf) : bool :=
  match crf_m f with Some m => m_ref m (env (crf_pat f)) p | None => false end.

Definition opt_act {X : Type} (o : option X) (mk : X -> action) (a : path) : path :=
  match o with Some x => fst (act_ref (mk x) a) | None => a end.

Definition then_ref (th : cfg_then) (a : path) : path * verdict :=
  if th_reject th then (a, Rejected) else
  let a := opt_act (th_lp th) ASetLocalPref a in
  let a := opt_act (th_med th) ASetMED a in
  let a := opt_act (th_pp th) (fun x => APrepend (fst x) (snd x)) a in
  let a := match th_nh th with Some (Some nh) => fst (act_ref (ASetNextHop nh) a) | _ => a end in
  (a, if th_accept th then Accepted else Continue).

Definition cterm_ref (env : penv) (p : prefix) (t : cfg_term) (a : path) : path * verdict :=
  if is_nil (ct_rfs t) || existsb (crf_ref env p) (ct_rfs t) then then_ref (ct_then t) a else (a, Continue).

Definition cstmt_ref (env : penv) (p : prefix) (stmts : list cfg_stmt) (name : N) (a : path) : path * verdict :=
  match find (fun s => cs_name s =? name) stmts with
  | Some s => seq_ref (cterm_ref env p) (cs_terms s) a
  | None => (a, Continue)
  end.

Definition policy_ref (env : penv) (stmts : list cfg_stmt) (names : list N) (p : prefix) (a : path) : path * bool :=
  let (a', v) := seq_ref (cstmt_ref env p stmts) names a in
  (a', match v with Rejected => true | _ => false end).

(* the policy names in force for the neighbor *)
Definition import_names (c : cfg) : list N := if is_nil (cfg_nimport c) then cfg_gimport c else cfg_nimport c.
Definition export_names (c : cfg) : list N := if is_nil (cfg_nexport c) then cfg_gexport c else cfg_nexport c.
