(* C10 / C18 specification.

   C10: the Adj-RIB-Out as the update sender's client interface defines it: AddPath(x, p) puts p
   at (x, path id), RemovePath(x, p) clears (x, path id).  The property: once nothing is queued or
   in flight, replaying what was written to the peer (Model.view) gives exactly this table.

   C18: the prefixes announced by the messages of one queue entry, and their lengths. *)
From Coq Require Import List NArith ZArith Bool.
Import ListNotations.
From BioVerif Require Import Model.UpdateSender.
Open Scope Z_scope.

(* ------------------------------------------------------------------ C10 *)

Definition ribT := pfx -> N -> option N.

Definition rib_empty : ribT := fun _ _ => None.

Definition rib_upd (r : ribT) (x : pfx) (pid : N) (v : option N) : ribT :=
  fun y q => if pfx_eqb y x && N.eqb q pid then v else r y q.

Definition rib_step (c : cfg) (r : ribT) (l : label) : ribT :=
  match l with
  | Add x p => rib_upd r x (wpid c p) (Some (p_tag p))
  | Remove x p => rib_upd r x (wpid c p) None
  | _ => r
  end.

(* the session's Adj-RIB-Out after the history ls, keyed by prefix and (wire) path identifier *)
Definition adj_rib_out (c : cfg) (ls : list label) : ribT := fold_left (rib_step c) ls rib_empty.

(* P holds for every label of the history, in the state (sender, Adj-RIB-Out) it is taken in *)
Fixpoint each_step (P : st -> ribT -> label -> Prop) (c : cfg) (s : st) (r : ribT) (ls : list label) : Prop :=
  match ls with
  | [] => True
  | l :: ls' =>
    P s r l /\
    match step c s l with
    | Some s' => each_step P c s' (rib_step c r l) ls'
    | None => True
    end
  end.

(* What the Adj-RIB-Out guarantees its client (adjRIBOut.addPath): a path is added at a key that is
   vacant (best-only: the old path is removed first: ReplacePath + removePathsFromClients) or that
   holds the very same attributes (add-path: path ids are allocated per attribute set). *)
Definition client_protocol_at (c : cfg) (_ : st) (r : ribT) (l : label) : Prop :=
  match l with
  | Add x p => r x (wpid c p) = None \/ r x (wpid c p) = Some (p_tag p)
  | _ => True
  end.

Definition client_protocol (c : cfg) (ls : list label) : Prop :=
  each_step (client_protocol_at c) c init rib_empty ls.

(* sha256 is modelled as the identity on the hashed tuple (p_tag, p_pid); the tuple covers every
   attribute the encoder writes, so a path that joins a queued entry has that entry's attributes
   (and therefore its sizes). *)
Definition hash_faithful_at (c : cfg) (s : st) (_ : ribT) (l : label) : Prop :=
  match l with
  | Add x p => forall e, In e (queue s) -> pkey (e_path e) = pkey p -> e_path e = p
  | _ => True
  end.

Definition hash_faithful (c : cfg) (ls : list label) : Prop :=
  each_step (hash_faithful_at c) c init rib_empty ls.

(* One NLRI fits into an UPDATE next to the attributes of the path (otherwise BGP cannot carry the
   route in 4096 bytes at all). *)
Definition fits (c : cfg) (p : path) (x : pfx) : Prop := nlri_len c x <= budget c p.

Definition all_fit_at (c : cfg) (_ : st) (_ : ribT) (l : label) : Prop :=
  match l with
  | Add x p => fits c p x
  | _ => True
  end.

Definition all_fit (c : cfg) (ls : list label) : Prop :=
  each_step (all_fit_at c) c init rib_empty ls.

(* (x, pid) is announced by a message the sender goroutine has dequeued but not written yet *)
Definition in_flight (c : cfg) (s : st) (x : pfx) (pid : N) : Prop :=
  match inflight s with
  | None => False
  | Some b => wpid c (b_path b) = pid /\ In x (concat (b_msgs b))
  end.

(* the guard that excludes the known defect: no route is withdrawn while its announcement is
   between Dequeue and EmitOne *)
Definition no_withdraw_in_flight_at (c : cfg) (s : st) (_ : ribT) (l : label) : Prop :=
  match l with
  | Remove x p => ~ in_flight c s x (wpid c p)
  | _ => True
  end.

Definition no_withdraw_in_flight (c : cfg) (ls : list label) : Prop :=
  each_step (no_withdraw_in_flight_at c) c init rib_empty ls.

(* ------------------------------------------------------------------ C18 *)

(* the messages written for one queue entry (oldest first) *)
Definition batch_wire (c : cfg) (p : path) (xs : list pfx) : list msg :=
  rev (emit_all c p (pack c p xs) []).

(* the UPDATE announcing the prefixes l with the attributes of p *)
Definition ann_of (c : cfg) (p : path) (l : list pfx) : msg :=
  MAnn (p_tag p) (wpid c p) (msg_total c p l) (wire_order c l).

Definition ann_pfxs (m : msg) : list pfx :=
  match m with MAnn _ _ _ xs => xs | _ => [] end.

(* all prefixes announced by a list of messages *)
Definition announced (w : list msg) : list pfx := flat_map ann_pfxs w.

Definition carries (c : cfg) (p : path) (m : msg) : Prop :=
  match m with
  | MAnn tag pid len _ => tag = p_tag p /\ pid = wpid c p /\ len <= 4096
  | _ => False
  end.

Definition all_fit_list (c : cfg) (p : path) (xs : list pfx) : Prop :=
  forall x, In x xs -> fits c p x.
