(* C01 specification: the routing table is a finite map from prefixes to non-empty lists
   (multisets) of paths, kept as an association list without duplicate keys.
   Prefixes are bit strings (Lib/BitPfx.v); "p contains q" is "p is a strict prefix of q". *)
From Coq Require Import List Bool Arith.
From BioVerif Require Import Lib.BitPfx Model.Trie.
Import ListNotations.

Section Spec.
  Variable P : Type.
  Variable peq : P -> P -> bool.

  Definition smap := list (bits * list P).

  Fixpoint lookup (m : smap) (q : bits) : option (list P) :=
    match m with
    | [] => None
    | (k, v) :: r => if beq k q then Some v else lookup r q
    end.

  Fixpoint set (m : smap) (q : bits) (v : list P) : smap :=
    match m with
    | [] => [(q, v)]
    | (k, w) :: r => if beq k q then (k, v) :: r else (k, w) :: set r q v
    end.

  Fixpoint del (m : smap) (q : bits) : smap :=
    match m with
    | [] => []
    | (k, w) :: r => if beq k q then r else (k, w) :: del r q
    end.

  (* insertion: one more path for the prefix *)
  Definition spec_add (m : smap) (p : bits) (a : P) : smap :=
    set m p (match lookup m p with Some ps => ps ++ [a] | None => [a] end).

  (* removal: one occurrence of the path goes; a prefix without paths is not stored any more *)
  Definition spec_remove (m : smap) (p : bits) (a : P) : smap :=
    match lookup m p with
    | None => m
    | Some ps =>
      let ps' := remove_first P peq a ps in
      if is_nil P ps' then del m p else set m p ps'
    end.

  (* replacement: the prefix has exactly this path afterwards *)
  Definition spec_replace (m : smap) (p : bits) (a : P) : smap := set m p [a].

  (* prefix removal *)
  Definition spec_removePfx (m : smap) (p : bits) : smap := del m p.

  (* replacement of one stored path by another (LocRIB.ReplacePath) *)
  Definition spec_subst (m : smap) (p : bits) (old new : P) : smap :=
    match lookup m p with
    | None => m
    | Some ps => set m p (subst_first P peq old new ps)
    end.

  Definition spec_step (m : smap) (o : bop P) : smap :=
    match o with
    | Add _ _ p a => spec_add m p a
    | Remove _ _ p a => spec_remove m p a
    | Replace _ _ p a => spec_replace m p a
    | RemovePfx _ _ p => spec_removePfx m p
    | Subst _ _ p old new => spec_subst m p old new
    end.

  Definition spec_run (ops : list (bop P)) : smap := fold_left spec_step ops [].

  (* the three lookups of the property, on the map *)
  Definition spec_get (m : smap) (q : bits) : option (bits * list P) :=
    match lookup m q with Some ps => Some (q, ps) | None => None end.

  (* stored prefixes that contain or equal the query *)
  Definition covering (q : bits) (e : bits * list P) : bool :=
    beq (fst e) q || bcontains (fst e) q.

  (* the query (if stored) and the stored prefixes inside it *)
  Definition covered (q : bits) (e : bits * list P) : bool :=
    beq (fst e) q || bcontains q (fst e).

  Definition spec_lpm (m : smap) (q : bits) : smap := filter (covering q) m.
  Definition spec_longer (m : smap) (q : bits) : smap := filter (covered q) m.
End Spec.
